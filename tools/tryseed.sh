#!/bin/bash
# tryseed.sh <seed-id> <govc func args...>: apply a seeded change to /repo, run the developer runner, undo it.
# Refuses to run when /repo has uncommitted changes (the undo is "git checkout -- .").
if [ -n "$(git -C /repo status --porcelain)" ]; then echo "REFUSED: /repo has uncommitted changes"; exit 3; fi
id=$1; shift
git -C /repo apply /verif/seeded/$id/patch.diff || exit 2
/verif/bin/govc func "$@" 2>&1 | grep -v "discharged (" | cut -c1-220
git -C /repo checkout -- .
