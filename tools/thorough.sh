#!/bin/bash
# thorough.sh <property>: the thorough tier of one property.
#  1. every obligation of the property again, with the long solver budget (60 s, then 240 s in the retry stage);
#  2. must-fail canaries: each seeded change of that property (/verif/seeded/<id>, confirmed property-breaking
#     changes) is applied to a scratch COPY of /repo's current working tree and the quick check is run on the copy:
#     it has to report a violation. A canary that is not caught is a weakness of the check, not a violation of the
#     property: it is reported as a CANARY-MISSED line and in the evidence file, and does not change the exit code.
# Exit code and VIOLATION lines are those of step 1 (on the unchanged working tree).
export GOFLAGS=-mod=mod GOPROXY=off GOSUMDB=off GOTOOLCHAIN=local
prop=$1
[ -z "$prop" ] && { echo "usage: thorough.sh <property>"; exit 2; }
/verif/bin/govc check -property $prop -tier thorough
rc=$?
[ $rc -ne 0 ] && exit $rc
scratch=$(mktemp -d /tmp/govc_canary_XXXXXX)
applied=0; detected=0; missed=""; skipped=""
for d in /verif/seeded/*/; do
  id=$(basename $d)
  p=$(python3 -c "import json;print(json.load(open('$d/meta.json'))['property'])" 2>/dev/null)
  [ "$p" = "$prop" ] || continue
  rm -rf $scratch/tree $scratch/out; mkdir -p $scratch/tree $scratch/out
  rsync -a --exclude .git /repo/ $scratch/tree/
  if ! (cd $scratch/tree && patch -p1 -s --no-backup-if-mismatch < $d/patch.diff) >/dev/null 2>&1; then
    skipped="$skipped $id"; continue   # the tree has moved on: the change no longer applies
  fi
  applied=$((applied+1))
  /verif/bin/govc check -property $prop -tier quick -repo $scratch/tree -outdir $scratch/out >$scratch/log 2>&1
  if [ $? -eq 1 ] && grep -q '^VIOLATION' $scratch/log; then detected=$((detected+1)); else missed="$missed $id"; echo "CANARY-MISSED: property=$prop seed=$id (a confirmed property-breaking change the check does not report)"; fi
done
rm -rf $scratch
echo "canaries: applied=$applied detected=$detected missed=[${missed# }] not-applicable=[${skipped# }]"
python3 - "$prop" "$applied" "$detected" "${missed# }" "${skipped# }" <<'PY'
import json,sys
prop,applied,detected,missed,skipped=sys.argv[1:6]
f='/verif/evidence/%s.json'%prop
e=json.load(open(f))
e['coverage']['canaries']={'what':'seeded property-breaking changes applied to a scratch copy of the working tree; the quick check must report a violation','applied':int(applied),'detected':int(detected),'missed':missed.split(),'no_longer_apply':skipped.split()}
json.dump(e,open(f,'w'),indent=1)
PY
exit 0
