#!/usr/bin/env python3
# Regenerates /verif/MANIFEST.json from the table below (kept here so that the manifest stays valid).
import json, subprocess
props=[json.loads(l)['id'] for l in open('/verif/properties.jsonl')]
ENV="GOFLAGS=-mod=vendor GOPROXY=off GOSUMDB=off GOTOOLCHAIN=local"
claimed = json.load(open('/verif/tools/claims.json'))
hooks=[l.split()[0] for l in subprocess.run(['git','-C','/repo','log','--format=%H %s'],capture_output=True,text=True).stdout.splitlines() if 'verif hook' in l]
m={"version":1,
"setup_cmd":f"cd /verif/engine && {ENV} go build -o /verif/bin/govc ./cmd/govc",
"hooks":{"guard":"verif","enable":"contracts live in comment-only files */contracts_verif.go guarded by //go:build verif; the checker loads /repo with -tags verif","baseline_off_cmd":"cd /repo && GOFLAGS=-mod=mod GOPROXY=off GOSUMDB=off GOTOOLCHAIN=local go test -json -vet=off -count=1 -timeout 25m ./...","source_commits":hooks,"add_only":True},
"engines":[{"name":"govc","path":"/verif/engine","serves_properties":sorted(claimed.keys()),"kind_free_text":"contract-based deductive verifier for Go built for this task: weakest-precondition style VC generation by symbolic execution of go/ssa (naive form) of the real /repo source, contracts in //@ comments (requires/ensures/modifies/loop invariants/decreases), obligations discharged by racing z3 5.1.0, z3 4.8.12 and cvc5 1.0"}],
"checks":[],
"not_applicable":[]}
for p in props:
    if p in claimed:
        c=claimed[p]
        m["checks"].append({"property_id":p,
          "quick_cmd":f"/verif/bin/govc check -property {p} -tier quick",
          "thorough_cmd":f"/verif/tools/thorough.sh {p}",
          "evidence_file":f"/verif/evidence/{p}.json",
          "replay_cmd_template":"/verif/bin/govc replay {path}",
          "engine":"govc",
          "level_claimed":{"category":"proof","text":c["text"],"design_ref":c.get("design_ref","DESIGN.md section 4")},
          "level_note":c["note"],
          "technique":"contract-based deductive verification: function contracts + loop invariants on the real Go code, VCs from go/ssa, discharged by z3/cvc5"})
    else:
        na=json.load(open('/verif/tools/not_applicable.json'))
        m["not_applicable"].append({"property_id":p,"reason":na.get(p,"check not built yet (engine under construction)")})
json.dump(m,open('/verif/MANIFEST.json','w'),indent=1)
print("claimed:",sorted(claimed.keys()))
