#!/bin/bash
# selftest.sh [seed ids...]: apply each seeded change to a scratch worktree of /repo and run the quick
# check of its property there; prints one line per seed (DETECTED / MISSED / UNDECIDED).
# Nothing is written to /repo; outputs go to a scratch directory outside /verif.
export GOFLAGS=-mod=mod GOPROXY=off GOSUMDB=off GOTOOLCHAIN=local
# SHARD=i NSHARD=n selects every n-th seed starting at i (0-based) so that several runs can share the work.
shard=${SHARD:-0}; nshard=${NSHARD:-1}
wt=${SELFTEST_WT:-/tmp/govc_selftest_wt}$shard
out=${SELFTEST_OUT:-/tmp/govc_selftest_out}$shard
git -C /repo worktree remove --force $wt 2>/dev/null
git -C /repo worktree add -q --detach $wt HEAD || exit 2
mkdir -p $out
ids="$@"; [ -z "$ids" ] && ids=$(ls /verif/seeded)
n=-1
for id in $ids; do
  n=$((n+1)); [ $((n % nshard)) -eq $shard ] || continue
  prop=$(python3 -c "import json;print(json.load(open('/verif/seeded/$id/meta.json'))['property'])")
  (cd $wt && git checkout -q -- . && git apply /verif/seeded/$id/patch.diff) || { echo "$id APPLY-FAIL"; continue; }
  res=$(/verif/bin/govc check -property $prop -tier quick -repo $wt -outdir $out 2>&1); rc=$?
  nv=$(echo "$res" | grep -c '^VIOLATION')
  first=$(echo "$res" | grep -m1 '^VIOLATION\|^UNDECIDED' | sed 's/.*replay=//;s/.*obligation=//' | xargs -n1 basename 2>/dev/null | head -1)
  case $rc in 1) st=DETECTED;; 0) st=MISSED;; *) st=UNDECIDED;; esac
  echo "$id property=$prop $st exit=$rc violations=$nv first=$first"
done
(cd $wt && git checkout -q -- .); git -C /repo worktree remove --force $wt; rm -rf $out
