#!/bin/bash
# verify_seed.sh <seed_dir>: confirm a seeded change in a scratch worktree of /repo:
#  (1) it applies and builds, (2) the existing suite passes with it (the known-flaky
#  Test_ReuseConnTransport is retried), (3) the demo fails with it, (4) the demo passes without it.
set -u
d=$1; id=$(basename $d)
export GOFLAGS=-mod=mod GOPROXY=off GOSUMDB=off GOTOOLCHAIN=local
wt=/tmp/vs_$id
git -C /repo worktree remove --force $wt 2>/dev/null
git -C /repo worktree add -q --detach $wt HEAD || exit 2
cd $wt
res="id=$id"
if ! git apply $d/patch.diff 2>/tmp/vs_$id.err; then echo "$res apply=FAIL $(head -1 /tmp/vs_$id.err)"; cd /; git -C /repo worktree remove --force $wt; exit 1; fi
if ! go build ./... 2>/dev/null; then echo "$res build=FAIL"; cd /; git -C /repo worktree remove --force $wt; exit 1; fi
suite=pass
out=$(go test -vet=off -count=1 -timeout 10m ./... 2>&1)
if echo "$out" | grep -q "^FAIL\|^--- FAIL"; then
  # retry the flaky package once
  fails=$(echo "$out" | grep "^--- FAIL" | grep -v Test_ReuseConnTransport | wc -l)
  if [ "$fails" -gt 0 ]; then suite=FAIL; else
    out2=$(go test -vet=off -count=1 ./internal/upstream/transport/ 2>&1); echo "$out2" | grep "^--- FAIL" | grep -qv Test_ReuseConnTransport && suite=FAIL
  fi
fi
res="$res suite=$suite"
dir=$(head -1 $d/demo_test.go | sed 's/.*dir: *//')
cp $d/demo_test.go $wt/$dir/zz_seed_demo_test.go
if go test -vet=off -count=1 -timeout 5m -run 'Seed|seed|SEED' ./$dir/ >/tmp/vs_$id.with 2>&1; then with=PASS; else with=fail; fi
git checkout -q -- . 
if go test -vet=off -count=1 -timeout 5m -run 'Seed|seed|SEED' ./$dir/ >/tmp/vs_$id.without 2>&1; then without=pass; else without=FAIL; fi
echo "$res demo_with_change=$with demo_without_change=$without dir=$dir"
cd /; git -C /repo worktree remove --force $wt
