package router

import (
	"bytes"
	"encoding/binary"
	"testing"

	"github.com/IrineSistiana/mosproxy/internal/dnsmsg"
	"github.com/IrineSistiana/mosproxy/internal/pool"
)

// D22: the last fall-back of mustHaveRespB (header only, taken when even the empty response
// cannot be packed, e.g. the question name is invalid) returned a recycled buffer in which only
// the ID and flag words were written: over TCP the 2-byte length prefix and all four count
// words were whatever the pool buffer held before.
func TestD22(t *testing.T) {
	for _, n := range []int{12, 14, 16} { // poison the pool
		b := pool.GetBuf(n)
		b = b[:cap(b)]
		for i := range b {
			b[i] = 0xEE
		}
		pool.ReleaseBuf(b)
	}
	q := dnsmsg.NewMsg()
	q.ID = 0x1234
	qs := dnsmsg.NewQuestion()
	qs.Name = dnsmsg.Name(pool.CopyBuf(bytes.Repeat([]byte{0x00}, 3))) // zero-length label: not packable
	q.Questions = append(q.Questions, qs)
	b := mustHaveRespB(q, nil, dnsmsg.RCodeRefused, true, 0)
	if got := int(binary.BigEndian.Uint16(b)); got != len(b)-2 {
		t.Errorf("TCP length prefix is %#x, body has %d bytes", got, len(b)-2)
	}
	if !bytes.Equal(b[2+4:], make([]byte, 8)) {
		t.Errorf("section counts of the header-only response are %x, want zeros", b[2+4:])
	}
}
