package router

// Replay of finding D13 (property C15): the QUIC listener charged the cost of every accepted connection to the
// connection's LOCAL address (the server's own), so all clients shared one bucket: a client whose own subnet had
// spent nothing was refused because of connections made by another client.
// Real QUIC handshakes over loopback: client A connects from 127.0.0.2 until refused, then client B connects
// from 127.0.0.3 and must be admitted (limit 1/s, burst 20, cost 15 per connection, /32 buckets).
// Run from /repo with:  go test -overlay <ov.json> -vet=off -run TestFindingD13 ./app/router

import (
	"context"
	"crypto/tls"
	"net"
	"testing"
	"time"

	"github.com/IrineSistiana/mosproxy/internal/mlog"
	"github.com/quic-go/quic-go"
)

func d13Dial(t *testing.T, from string, to net.Addr) (quic.Connection, error) {
	uc, err := net.ListenPacket("udp", from+":0")
	if err != nil {
		t.Skipf("cannot bind %s: %v", from, err)
	}
	tr := &quic.Transport{Conn: uc}
	ctx, cancel := context.WithTimeout(context.Background(), 3*time.Second)
	defer cancel()
	return tr.Dial(ctx, to, &tls.Config{InsecureSkipVerify: true, NextProtos: []string{"doq"}}, &quic.Config{})
}

// admitted: the server keeps an admitted connection open; a refused one is closed at once.
func d13Admitted(c quic.Connection) bool {
	select {
	case <-c.Context().Done():
		return false
	case <-time.After(300 * time.Millisecond):
		return true
	}
}

func TestFindingD13QuicConnCostChargedToClient(t *testing.T) {
	r := &router{logger: mlog.Nop()}
	r.limiter = initResourceLimiter(LimiterConfig{Client: ClientLimiterConfig{Limit: 1, Burst: 20, V4Mask: 32, V6Mask: 128}})
	defer r.limiter.Close()
	s, err := r.startQuicServer(&ServerConfig{Listen: "127.0.0.1:0", Tls: TlsConfig{DebugUseTempCert: true}})
	if err != nil {
		t.Fatal(err)
	}
	defer s.Close()
	addr := s.l.Addr()

	// client A spends its own budget (burst 20, cost 15: the second connection is refused)
	refusedA := false
	for i := 0; i < 3 && !refusedA; i++ {
		c, err := d13Dial(t, "127.0.0.2", addr)
		if err != nil || !d13Admitted(c) {
			refusedA = true
		}
	}
	if !refusedA {
		t.Skip("client A was never refused; cannot show isolation")
	}
	// client B has spent nothing
	c, err := d13Dial(t, "127.0.0.3", addr)
	if err != nil || !d13Admitted(c) {
		t.Fatalf("client 127.0.0.3 was refused although it had not used any of its budget (err=%v): connection costs are not charged per client", err)
	}
}
