package router

// Replay of finding D16 (property C03): the reply of the upstream is relayed with whatever question section the
// upstream put in it. C03: a response carries at most one question, equal (ASCII-case-insensitively) to the query's
// first question. An upstream that answers with another question (or several) got it through to the client and
// into the cache.
// Run from /repo with:  go test -overlay <ov.json> -vet=off -run TestFindingD16 ./app/router

import (
	"bytes"
	"context"
	"net/netip"
	"testing"

	"github.com/IrineSistiana/mosproxy/internal/dnsmsg"
)

type d16Upstream struct{}

func (d16Upstream) ExchangeContext(ctx context.Context, q []byte) (*dnsmsg.Msg, error) {
	m := dnsmsg.NewMsg()
	m.Response = true
	for _, n := range []string{"\x04evil\x07example", "\x05other\x07example"} {
		qq := dnsmsg.NewQuestion()
		qq.Name = append(qq.Name, n...)
		qq.Type, qq.Class = dnsmsg.TypeA, 1
		m.Questions = append(m.Questions, qq)
	}
	return m, nil
}
func (d16Upstream) Close() error { return nil }

func TestFindingD16UpstreamQuestionRelayed(t *testing.T) {
	r := &router{}
	u := wrapUpstream("t", d16Upstream{})
	q := dnsmsg.NewQuestion()
	q.Name = dnsmsg.Name("\x01a\x07example")
	q.Type, q.Class = dnsmsg.TypeA, 1
	resp, err := r.forward(context.Background(), u, q, netip.Addr{})
	if err != nil {
		return // rejecting the reply is fine
	}
	if len(resp.Questions) > 1 {
		t.Fatalf("the reply that will be relayed has %d questions", len(resp.Questions))
	}
	if len(resp.Questions) == 1 && !bytes.EqualFold(resp.Questions[0].Name, q.Name) {
		t.Fatalf("the reply that will be relayed is about %q, the query was about %q", resp.Questions[0].Name, q.Name)
	}
}
