package router

// Replay of finding D32 (property C15): the fasthttp variant of the DoH listener ("protocol: fasthttp") applied no
// admission control at all - neither the connection cost nor the per-query cost was charged, and nothing was ever
// refused - so with client limiting configured a single client's queries were all served, far beyond
// burst + rate x window, while the same client is refused (503) on the net/http listener.
// Run from /repo with:  go test -overlay <ov.json> -vet=off -run TestFindingD32 ./app/router

import (
	"context"
	"encoding/base64"
	"net"
	"testing"

	"github.com/valyala/fasthttp"
)

func TestFindingD32(t *testing.T) {
	const limit, burst, n = 1, 4, 40
	r, err := run(context.Background(), &Config{
		Rules:   []RuleConfig{{Reject: 3}}, // every query is answered NXDOMAIN locally: no upstream needed
		Limiter: LimiterConfig{Client: ClientLimiterConfig{Limit: limit, Burst: burst}},
	})
	if err != nil {
		t.Fatal(err)
	}
	defer r.close(nil)
	h := &fasthttpHandler{r: r, logger: r.logger}

	query := []byte{0x12, 0x34, 0x01, 0x00, 0, 1, 0, 0, 0, 0, 0, 0, 7, 'e', 'x', 'a', 'm', 'p', 'l', 'e', 3, 'c', 'o', 'm', 0, 0, 1, 0, 1}
	served, refused := 0, 0
	client := &net.TCPAddr{IP: net.IPv4(192, 0, 2, 9), Port: 40000}
	for i := 0; i < n; i++ {
		var req fasthttp.Request
		req.Header.SetMethod("GET")
		req.Header.Set("Accept", "application/dns-message")
		req.SetRequestURI("/dns-query?dns=" + base64.RawURLEncoding.EncodeToString(query))
		var ctx fasthttp.RequestCtx
		ctx.Init(&req, client, nil)
		h.HandleFastHTTP(&ctx)
		switch ctx.Response.StatusCode() {
		case fasthttp.StatusOK:
			served++
		case fasthttp.StatusServiceUnavailable:
			refused++
		default:
			t.Fatalf("unexpected status %d", ctx.Response.StatusCode())
		}
	}
	// each query costs at least 2 (HTTP query) on admission; the whole loop takes a few milliseconds
	if bound := (burst + limit*1) / 2; served > bound+1 {
		t.Fatalf("client limit %d/s burst %d: %d of %d queries of one client were served within about a millisecond (%d refused); at cost 2 per query at most %d fit the budget", limit, burst, served, n, refused, bound+1)
	}
}
