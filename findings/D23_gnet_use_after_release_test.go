//go:build linux

package router

// Replay of finding D23 (property C20): the per-query goroutine of the gnet listener released the query
// message (dnsmsg.ReleaseMsg(m)) BEFORE passing it to mustHaveRespB(m, ...). mustHaveRespB reads the query
// whenever the response cannot be packed (fall-back answer built from the query): by then the message has been
// reset and returned to the pool, so the fall-back carries ID 0 (or whatever another goroutine put there).
// Drives the real gnetServer.OnTraffic with a minimal gnet.Conn; a pre-processing middleware supplies a
// response that cannot be packed.
// Run from /repo with:  go test -overlay <ov.json> -vet=off -run TestFindingD23 ./app/router

import (
	"context"
	"encoding/binary"
	"testing"
	"time"

	"github.com/IrineSistiana/mosproxy/internal/dnsmsg"
	"github.com/IrineSistiana/mosproxy/internal/mlog"
	"github.com/IrineSistiana/mosproxy/internal/pool"
	"github.com/panjf2000/gnet/v2"
	"github.com/prometheus/client_golang/prometheus"
)

type d23Conn struct {
	gnet.Conn // nil: only the methods OnTraffic uses are implemented
	ctx       any
	in        []byte
	out       chan []byte
}

func (c *d23Conn) Context() any { return c.ctx }
func (c *d23Conn) Next(n int) ([]byte, error) {
	if n > len(c.in) {
		return nil, context.DeadlineExceeded
	}
	if n <= 0 {
		n = len(c.in)
	}
	b := c.in[:n]
	c.in = c.in[n:]
	return b, nil
}
func (c *d23Conn) InboundBuffered() int { return len(c.in) }
func (c *d23Conn) AsyncWrite(b []byte, cb gnet.AsyncCallback) error {
	c.out <- append([]byte(nil), b...)
	return cb(c, nil)
}
func (c *d23Conn) Flush() error { return nil }

func TestFindingD23GnetQueryUsedAfterRelease(t *testing.T) {
	old := MiddlewarePreProcessors
	defer func() { MiddlewarePreProcessors = old }()
	MiddlewarePreProcessors = []MiddlewareHandler{func(_ context.Context, m *dnsmsg.Msg, rc *RequestContext) {
		resp := dnsmsg.NewMsg()
		resp.ID, resp.Response = m.ID, true
		q := dnsmsg.NewQuestion()
		q.Name = dnsmsg.Name(pool.GetBuf(300)) // longer than any legal name: packing fails
		for i := range q.Name {
			q.Name[i] = 1
		}
		resp.Questions = append(resp.Questions, q)
		rc.Response.Msg = resp
	}}
	r := &router{logger: mlog.Nop(), queryTotal: prometheus.NewCounter(prometheus.CounterOpts{Name: "d23"})}
	e := &gnetServer{r: r, logger: mlog.Nop(), maxConcurrent: 100, idleTimeout: time.Minute}
	cc := &connCtx{idleTimer: time.NewTimer(time.Hour)}

	query := []byte{0x12, 0x34, 0x01, 0x00, 0, 1, 0, 0, 0, 0, 0, 0, 1, 'a', 0, 0, 1, 0, 1}
	frame := append([]byte{0, byte(len(query))}, query...)
	c := &d23Conn{ctx: cc, in: frame, out: make(chan []byte, 1)}
	e.OnTraffic(c)
	select {
	case b := <-c.out:
		if len(b) < 14 {
			t.Fatalf("short response %x", b)
		}
		if id := binary.BigEndian.Uint16(b[2:]); id != 0x1234 {
			t.Fatalf("response carries ID %#04x instead of the query's 0x1234: the query message was read after it had been released", id)
		}
	case <-time.After(5 * time.Second):
		t.Fatal("no response")
	}
}
