package router

// Replay of finding D6 (property C17): the listener option verify_client_cert was never read: the tls.Config built
// for a listener neither requested nor verified a client certificate, so a client without any certificate
// completed the handshake and was served.
// Run from /repo with:  go test -overlay <ov.json> -vet=off -run TestFindingD6 ./app/router

import (
	"crypto/tls"
	"net"
	"testing"
	"time"
)

func TestFindingD6ClientWithoutCertIsAccepted(t *testing.T) {
	cfg, err := makeTlsConfig(&TlsConfig{DebugUseTempCert: true, VerifyClientCert: true}, true)
	if err != nil {
		t.Fatal(err)
	}
	sc, cc := net.Pipe()
	defer sc.Close()
	defer cc.Close()
	sc.SetDeadline(time.Now().Add(5 * time.Second))
	cc.SetDeadline(time.Now().Add(5 * time.Second))
	srvErr := make(chan error, 1)
	go func() {
		s := tls.Server(sc, cfg)
		err := s.Handshake()
		if err == nil {
			// TLS 1.3: the server learns about the missing client certificate when it reads
			var b [1]byte
			_, err = s.Read(b[:])
		}
		srvErr <- err
	}()
	c := tls.Client(cc, &tls.Config{InsecureSkipVerify: true}) // presents no certificate
	cerr := c.Handshake()
	if cerr == nil {
		c.Write([]byte{0})
	}
	if err := <-srvErr; err == nil {
		t.Fatalf("verify_client_cert is set, yet a client without a certificate was accepted (client side: %v)", cerr)
	}
}
