package limiter

// Replay of finding D34 (property C15): the collector decides to drop an idle entry while holding the entry's
// lock, but deletes it from the table AFTER releasing the lock; a request that has already fetched the entry from
// the table (AllowN, between LoadOrCompute and Lock) then charges the orphaned entry, and the subnet's next
// request finds no entry and gets a brand-new full bucket: two bursts at once.
// The schedule is forced deterministically by holding the entry's lock while both parties queue up on it
// (sync.Mutex hands over in arrival order): collector first, request second.
// Run from /repo with:  go test -overlay <ov.json> -vet=off -run TestFindingD34 ./internal/limiter

import (
	"net/netip"
	"testing"
	"time"
)

func TestFindingD34(t *testing.T) {
	const rate, burst = 1, 100
	cl := NewClientLimiter(ClientLimiterOpts{Limit: rate, Burst: burst})
	defer cl.Close()
	addr := netip.MustParseAddr("192.0.2.7")
	key := cl.mask(addr)

	// an entry that has been idle for two minutes, bucket full
	t0 := time.Now().Add(-2 * time.Minute)
	if !cl.AllowN(addr, t0, 1) {
		t.Fatal("first request refused")
	}
	ent, _ := cl.m.Load(key)

	ent.m.Lock() // freeze the entry
	gcDone := make(chan struct{})
	go func() { cl.gc(); close(gcDone) }() // queues up on the entry's lock first
	time.Sleep(50 * time.Millisecond)
	now := time.Now()
	admitted := 0
	reqDone := make(chan bool)
	go func() { reqDone <- cl.AllowN(addr, now, burst) }() // has the entry, queues up second
	time.Sleep(50 * time.Millisecond)
	ent.m.Unlock()
	<-gcDone
	if <-reqDone {
		admitted += burst
	}
	for i := 0; i < 2*burst; i++ { // the same subnet, the same instant
		if cl.AllowN(addr, now, 1) {
			admitted++
		}
	}
	if bound := burst + rate*1; admitted > bound {
		t.Fatalf("subnet was admitted cost %d at one instant, more than burst + rate x window = %d", admitted, bound)
	}
}
