package domainmatcher

import "testing"

func TestD11(t *testing.T) {
	m := NewDomainMatcher()
	m.Add([][]byte{[]byte("com")})
	if !m.Match([]byte("\x03com")) {
		t.Fatal("entry com must match com")
	}
	if m.Match([]byte("\x04com\x00")) {
		t.Fatal("D11: label \"com\\x00\" matched entry \"com\"")
	}
}
