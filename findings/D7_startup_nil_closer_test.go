package router

// Replay of finding D7 (property C18): a start-up error from startServer made run() append a nil
// closer and then call it from the deferred close -> nil function call panic instead of an error.
// Run from /repo with:  go test -overlay <ov.json> -vet=off -run TestFindingD7 ./app/router

import (
	"context"
	"testing"
)

func TestFindingD7StartupErrorNoPanic(t *testing.T) {
	cfg := &Config{Servers: []ServerConfig{{Protocol: "no-such-protocol"}}}
	defer func() {
		if r := recover(); r != nil {
			t.Fatalf("start-up error was reported as a panic: %v", r)
		}
	}()
	r, err := run(context.Background(), cfg)
	if err == nil || r != nil {
		t.Fatalf("expected a start-up error and no router, got r=%v err=%v", r, err)
	}
}
