package dnsmsg

import "testing"

// D1: when Pack had to omit records to honour the size limit it neither set TC nor reduced
// the section counts, so the packed message could not be decoded.
func TestD1(t *testing.T) {
	m := NewMsg()
	m.Header.Response = true
	q := NewQuestion()
	q.Name = Name(copyBuf([]byte("\x07example\x03com")))
	q.Type, q.Class = TypeA, ClassINET
	m.Questions = append(m.Questions, q)
	for i := 0; i < 100; i++ {
		a := NewA()
		a.Name = Name(copyBuf([]byte("\x07example\x03com")))
		a.Type, a.Class, a.TTL = TypeA, ClassINET, 60
		a.A = [4]byte{10, 0, 0, byte(i)}
		m.Answers = append(m.Answers, a)
	}
	b := make([]byte, m.Len())
	n, err := m.Pack(b, false, 512)
	if err != nil {
		t.Fatal(err)
	}
	if n > 512 {
		t.Fatalf("size %d > 512", n)
	}
	if b[2]&0x02 == 0 {
		t.Errorf("records were omitted but TC is not set (flags %02x%02x)", b[2], b[3])
	}
	if _, err := UnpackMsg(b[:n]); err != nil {
		t.Errorf("truncated message does not decode: %v (ANCOUNT=%d)", err, int(b[6])<<8|int(b[7]))
	}
}
