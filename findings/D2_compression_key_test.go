package dnsmsg

// Replay of finding D2 (property C02): the compression table key was the name suffix WITHOUT the
// length byte of its first label, so the suffixes  [51]"a1"+49*"x"  and  "a" . [49]49*"x"  had the same
// key; the second name was then packed as a pointer to the first and decoded as a different name.
// Run from /repo with:  go test -overlay <ov.json> -vet=off -run TestFindingD2 ./internal/dnsmsg

import (
	"bytes"
	"testing"
)

func TestFindingD2CompressionKeyCollision(t *testing.T) {
	x49 := bytes.Repeat([]byte("x"), 49)
	n1 := append([]byte{51, 'a', '1'}, x49...)    // one label: "a1xxxx...x" (51 octets)
	n2 := append([]byte{1, 'a', 49}, x49...)      // two labels: "a" and 49 x
	m := new(Msg)
	m.Questions = []*Question{{Name: n1, Type: TypeA, Class: 1}}
	m.Answers = []Resource{&A{ResourceHdr: ResourceHdr{Name: n2, Type: TypeA, Class: 1, TTL: 60}, A: [4]byte{1, 2, 3, 4}}}
	b := make([]byte, m.Len())
	n, err := m.Pack(b, true, 0)
	if err != nil {
		t.Fatal(err)
	}
	m2, err := UnpackMsg(b[:n])
	if err != nil {
		t.Fatalf("packed message does not decode: %v", err)
	}
	if got := []byte(m2.Answers[0].Hdr().Name); !bytes.Equal(got, n2) {
		t.Fatalf("owner name changed by compression:\n packed  %q\n decoded %q", n2, got)
	}
}
