package router

// Replay of finding D28 (property C18): initCache with a memory cache AND a redis cache whose set-up fails (bad
// URL, server unreachable) returned the error without closing the memory cache it had already created: its
// background goroutines (and memory) are left behind - a start-up error that does not release what was started.
// Witness: the number of goroutines before and after a failed initCache.
// Run from /repo with:  go test -overlay <ov.json> -vet=off -run TestFindingD28 ./app/router

import (
	"runtime"
	"testing"
	"time"

	"github.com/IrineSistiana/mosproxy/internal/mlog"
)

func TestFindingD28(t *testing.T) {
	r := &router{logger: mlog.Nop(), metricsReg: newMetricsReg()}
	settle := func() int {
		n := runtime.NumGoroutine()
		for i := 0; i < 50; i++ { // wait until the count is stable
			time.Sleep(20 * time.Millisecond)
			m := runtime.NumGoroutine()
			if m == n && i > 5 {
				break
			}
			n = m
		}
		return n
	}
	before := settle()
	for i := 0; i < 5; i++ {
		c, err := r.initCache(&CacheConfig{MemSize: 1 << 20, Redis: "not a redis url ://"})
		if err == nil || c != nil {
			t.Fatalf("initCache with a bad redis url returned (%v, %v)", c, err)
		}
	}
	after := settle()
	for i := 0; i < 40 && after > before; i++ { // a closed otter cache stops its workers within about a second
		time.Sleep(200 * time.Millisecond)
		after = runtime.NumGoroutine()
	}
	if after > before {
		t.Fatalf("5 failed initCache calls left %d goroutines behind (before %d, after %d): the memory cache created before the redis failure was never closed", after-before, before, after)
	}
}
