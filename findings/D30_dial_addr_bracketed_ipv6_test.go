package upstream

// Replay of finding D30 (property C17): a dial_addr override written as a bracketed IPv6 literal without a port
// ("[::1]", the usual way to write an IPv6 host when the port is optional) got the default port added around the
// brackets: "[[::1]]:53" - an address nothing can be dialled at - instead of "[::1]:53". (The same literal as URL
// host, or the override written without brackets, works.)
// Run from /repo with:  go test -overlay <ov.json> -vet=off -run TestFindingD30 ./internal/upstream

import (
	"net"
	"net/netip"
	"testing"
)

func TestFindingD30(t *testing.T) {
	got := getDialAddr("dns.example", "[::1]", "53")
	if got != "[::1]:53" {
		t.Errorf(`getDialAddr("dns.example", "[::1]", "53") = %q, want "[::1]:53"`, got)
	}
	if _, err := netip.ParseAddrPort(got); err != nil {
		t.Errorf("the dial address %q is not an address: %v", got, err)
	}
	if c, err := net.Dial("udp", got); err != nil {
		t.Errorf("cannot dial %q: %v", got, err)
	} else {
		c.Close()
	}
}
