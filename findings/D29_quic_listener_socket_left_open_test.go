package router

// Replay of finding D29 (property C18): closing the DoQ listener left its UDP socket open. startQuicServer
// opens the socket itself (net.ListenPacket) and hands it to a quic.Transport; a Transport that did not create
// its connection does not close it - neither when the listener is closed nor in Transport.Close() on the failed-
// listen path - and nothing else closed it: after the router is closed the proxy still holds the UDP port.
// Run from /repo with:  go test -overlay <ov.json> -vet=off -run TestFindingD29 ./app/router

import (
	"net"
	"testing"
	"time"

	"github.com/IrineSistiana/mosproxy/internal/mlog"
)

func TestFindingD29(t *testing.T) {
	// pick a free UDP port
	pc, err := net.ListenPacket("udp", "127.0.0.1:0")
	if err != nil {
		t.Skip(err)
	}
	addr := pc.LocalAddr().String()
	pc.Close()

	r := &router{logger: mlog.Nop(), fatalErr: make(chan fatalErr, 1)}
	s, err := r.startQuicServer(&ServerConfig{Protocol: "quic", Listen: addr, Tls: TlsConfig{DebugUseTempCert: true}})
	if err != nil {
		t.Fatal(err)
	}
	s.Close()

	var lastErr error
	for i := 0; i < 25; i++ { // give the accept loop time to wind down
		time.Sleep(100 * time.Millisecond)
		pc, lastErr = net.ListenPacket("udp", addr)
		if lastErr == nil {
			pc.Close()
			return
		}
	}
	t.Fatalf("the DoQ listener was closed 2.5 s ago but its UDP port is still bound: %v", lastErr)
}
