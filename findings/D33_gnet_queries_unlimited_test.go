package router

// Replay of finding D33 (property C15): the gnet TCP listener charged a connection when it was opened and then
// nothing any more: the queries on that connection were never charged to the client (cost 2 each on the plain TCP
// listener) and never refused by the limiter, so with client limiting configured one client was served without
// bound over a single connection.
// Run from /repo with:  go test -overlay <ov.json> -vet=off -run TestFindingD33 ./app/router

import (
	"context"
	"encoding/binary"
	"io"
	"net"
	"runtime"
	"testing"
	"time"
)

func TestFindingD33(t *testing.T) {
	if runtime.GOOS != "linux" {
		t.Skip("gnet server is linux only")
	}
	const limit, burst, n = 1, 10, 30
	tmpL, err := net.Listen("tcp", "127.0.0.1:0")
	if err != nil {
		t.Fatal(err)
	}
	addr := tmpL.Addr().String()
	tmpL.Close()
	r, err := run(context.Background(), &Config{
		Servers: []ServerConfig{{Protocol: "gnet", Listen: addr, IdleTimeout: 30}},
		Rules:   []RuleConfig{{Reject: 3}}, // answered NXDOMAIN locally
		Limiter: LimiterConfig{Client: ClientLimiterConfig{Limit: limit, Burst: burst}},
	})
	if err != nil {
		t.Fatal(err)
	}
	defer r.close(nil)
	c, err := net.Dial("tcp", addr)
	if err != nil {
		t.Fatal(err)
	}
	defer c.Close()

	q := []byte{0, 0, 0x01, 0x00, 0, 1, 0, 0, 0, 0, 0, 0, 7, 'e', 'x', 'a', 'm', 'p', 'l', 'e', 3, 'c', 'o', 'm', 0, 0, 1, 0, 1}
	nx, refused := 0, 0
	for i := 1; i <= n; i++ {
		binary.BigEndian.PutUint16(q, uint16(i))
		frame := binary.BigEndian.AppendUint16(nil, uint16(len(q)))
		if _, err := c.Write(append(frame, q...)); err != nil {
			t.Fatal(err)
		}
		c.SetReadDeadline(time.Now().Add(3 * time.Second))
		var hdr [2]byte
		if _, err := io.ReadFull(c, hdr[:]); err != nil {
			t.Fatalf("query %d: %v", i, err)
		}
		body := make([]byte, binary.BigEndian.Uint16(hdr[:]))
		if _, err := io.ReadFull(c, body); err != nil {
			t.Fatal(err)
		}
		switch body[3] & 0xF {
		case 3:
			nx++
		case 5:
			refused++
		}
	}
	// connection cost 3, then 2 per query: with burst 10 at most 3 queries fit (plus what 1 token/s refills
	// during the few milliseconds this takes)
	if nx > 5 {
		t.Fatalf("client limit %d/s burst %d: %d of %d queries on one gnet connection were served, %d refused", limit, burst, nx, n, refused)
	}
}
