package router

// Replay of finding D24 (property C12): router.forward strips EDNS0 from the upstream reply with
// dnsmsg.RemoveEDNS0, which removed only ONE OPT record. A reply carrying two OPT records therefore reached
// the client (and the cache) with an upstream OPT still in it, although the query had none.
// Run from /repo with:  go test -overlay <ov.json> -vet=off -run TestFindingD24 ./app/router

import (
	"context"
	"net/netip"
	"testing"

	"github.com/IrineSistiana/mosproxy/internal/dnsmsg"
)

type d24Upstream struct{}

func (d24Upstream) ExchangeContext(ctx context.Context, q []byte) (*dnsmsg.Msg, error) {
	m := dnsmsg.NewMsg()
	m.Response = true
	for i := 0; i < 2; i++ {
		opt := dnsmsg.NewRaw()
		opt.Type = dnsmsg.TypeOPT
		opt.Class = 4096
		m.Additionals = append(m.Additionals, opt)
	}
	return m, nil
}
func (d24Upstream) Close() error { return nil }

func TestFindingD24UpstreamOptRelayed(t *testing.T) {
	r := &router{}
	u := wrapUpstream("t", d24Upstream{})
	q := dnsmsg.NewQuestion()
	q.Name = dnsmsg.Name{1, 'a'}
	q.Type, q.Class = dnsmsg.TypeA, 1
	resp, err := r.forward(context.Background(), u, q, netip.Addr{})
	if err != nil {
		t.Fatal(err)
	}
	for _, rr := range resp.Additionals {
		if rr.Hdr().Type == dnsmsg.TypeOPT {
			t.Fatalf("the forwarded reply still contains an upstream OPT record (%d additional records)", len(resp.Additionals))
		}
	}
}
