package transport

// Replay of finding D15 (property C20): ReuseConnTransport.ExchangeContext returns its framed payload to the
// buffer pool (deferred pool.ReleaseBuf) as soon as it returns - also when it returns early because the caller's
// context is done, while the goroutine started by exchangeConnCtx is still writing that payload to the
// connection. The buffer is then recycled for another request and the bytes that reach the upstream are the other
// request's.
// Deterministic schedule: the peer (net.Pipe) reads late, the caller's context expires first, the test takes the
// recycled buffer from the pool and fills it with 0x55 before the peer reads.
// Run from /repo with:  go test -overlay <ov.json> -vet=off -run TestFindingD15 ./internal/upstream/transport

import (
	"bytes"
	"context"
	"io"
	"net"
	"testing"
	"time"

	"github.com/IrineSistiana/mosproxy/internal/pool"
)

func TestFindingD15PayloadReleasedWhileStillBeingWritten(t *testing.T) {
	srv, cli := net.Pipe()
	defer srv.Close()
	tr := NewReuseConnTransport(ReuseConnOpts{DialContext: func(ctx context.Context) (net.Conn, error) { return cli, nil }})
	defer tr.Close()

	query := bytes.Repeat([]byte{0xAB}, 30) // 30 bytes, the first 12 play the DNS header
	got := make(chan []byte, 1)
	go func() {
		time.Sleep(300 * time.Millisecond) // the upstream is slow to read
		b := make([]byte, 2+len(query))
		io.ReadFull(srv, b)
		got <- b
	}()

	ctx, cancel := context.WithTimeout(context.Background(), 50*time.Millisecond)
	defer cancel()
	if _, err := tr.ExchangeContext(ctx, query); err == nil {
		t.Fatal("expected the exchange to be abandoned")
	}
	// the exchange has returned: another request now gets buffers of the same size class from the pool
	var held []pool.Buffer
	for i := 0; i < 64; i++ {
		b := pool.GetBuf(2 + len(query))
		for j := range b {
			b[j] = 0x55
		}
		held = append(held, b)
	}
	frame := <-got
	for _, b := range held {
		pool.ReleaseBuf(b)
	}
	if !bytes.Equal(frame[2:], query) {
		t.Fatalf("the upstream received bytes of another request: % x", frame)
	}
}
