package transport

import (
	"io"
	"strings"
	"testing"
)

// D12: DoHTransport.Close called itself instead of u.closer.Close(): any DoH upstream that
// has a closer (h3) overflowed the stack on shutdown. Run with:
//   go test -overlay <ov.json> -run TestD12 ./internal/upstream/transport/
func TestD12(t *testing.T) {
	u := &DoHTransport{closer: io.NopCloser(strings.NewReader(""))}
	if err := u.Close(); err != nil {
		t.Fatal(err)
	}
}
