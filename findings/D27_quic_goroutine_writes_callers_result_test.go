package transport

// Replay of finding D27 (property C20): the goroutine that exchangeStream starts assigned the ENCLOSING function's
// named result `err` (`_, err = stream.Write(payload)`), which the function itself writes when it returns early
// because the caller's context is done: two unsynchronised writes to one variable - a data race on the value the
// caller receives (an exchange that was cancelled can return (nil, nil), which ExchangeContext dereferences).
// The race detector is the witness; run from /repo with:
//   go test -race -overlay <ov.json> -vet=off -run TestFindingD27 ./internal/upstream/transport

import (
	"context"
	"io"
	"testing"
	"time"

	"github.com/quic-go/quic-go"
)

type d27Stream struct {
	quic.Stream // the methods exchangeStream does not use are never called
}

func (s *d27Stream) Write(p []byte) (int, error)          { time.Sleep(30 * time.Millisecond); return len(p), nil }
func (s *d27Stream) Read(p []byte) (int, error)           { return 0, io.EOF }
func (s *d27Stream) Close() error                         { return nil }
func (s *d27Stream) CancelRead(quic.StreamErrorCode)      {}
func (s *d27Stream) CancelWrite(quic.StreamErrorCode)     {}
func (s *d27Stream) SetReadDeadline(time.Time) error      { return nil }
func (s *d27Stream) SetWriteDeadline(time.Time) error     { return nil }
func (s *d27Stream) SetDeadline(time.Time) error          { return nil }
func (s *d27Stream) StreamID() quic.StreamID              { return 0 }
func (s *d27Stream) Context() context.Context             { return context.Background() }

func TestFindingD27(t *testing.T) {
	tr := NewQuicTransport(QuicTransportOpts{})
	ctx, cancel := context.WithCancel(context.Background())
	cancel() // the caller has already given up: exchangeStream returns at once, while the goroutine is still writing
	payload := make([]byte, 14)
	resp, err := tr.exchangeStream(ctx, payload, &d27Stream{})
	if resp != nil || err == nil {
		t.Fatalf("cancelled exchange returned (%v, %v)", resp, err)
	}
	time.Sleep(100 * time.Millisecond) // let the goroutine finish its write (and its assignment)
}
