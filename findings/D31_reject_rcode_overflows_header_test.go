package router

// Replay of finding D31 (properties C10/C03): a reject rule's rcode is a free 16-bit number in the configuration,
// but a DNS header has 4 bits for it; Header.Pack ORs the whole number into the flags word. A rule with
// "reject: 2048" (any value above 15) was accepted at start-up and its answers went out with corrupted flags -
// here the response's OPCODE differs from the query's, so the client cannot match it - instead of the
// configuration being refused.
// Run from /repo with:  go test -overlay <ov.json> -vet=off -run TestFindingD31 ./app/router

import (
	"encoding/binary"
	"testing"

	"github.com/IrineSistiana/mosproxy/internal/dnsmsg"
	"github.com/IrineSistiana/mosproxy/internal/mlog"
)

func TestFindingD31(t *testing.T) {
	r := &router{logger: mlog.Nop()}
	ru, err := r.loadRule(&RuleConfig{Reject: 2048})
	if err != nil {
		return // refused at start-up: fine
	}
	q := dnsmsg.NewQuestion()
	q.Name = append(q.Name[:0], "\x07example\x03com"...)
	q.Type, q.Class = 1, 1
	query := dnsmsg.NewMsg()
	query.ID = 0x1234
	query.RecursionDesired = true
	query.Questions = append(query.Questions, q)

	rc := &RequestContext{}
	makeEmptyResp(q, rc, ru.reject) // what handleReq does for a matching reject rule
	rc.Response.Msg.ID = query.ID
	rc.Response.Msg.Response = true
	b := mustHaveRespB(query, rc.Response.Msg, dnsmsg.RCodeRefused, false, 512)
	flags := binary.BigEndian.Uint16(b[2:])
	t.Logf("flags %#04x", flags)
	if op := (flags >> 11) & 0xF; op != 0 {
		t.Fatalf("reject rule with rcode 2048 was accepted, and its answer carries OPCODE %d (flags %#04x) for a QUERY", op, flags)
	}
}
