package transport

// Replay of finding D26 (property C18): QuicTransport.Close while a dial is in progress. runDialingCall's
// "transport closed meanwhile" branch returned without completing the dialing call (call.done was never closed),
// so every exchange waiting for that dial kept waiting until its OWN context ended - for ever with a context
// that has no deadline - instead of failing when the transport was closed.
// Run from /repo with:  go test -overlay <ov.json> -vet=off -run TestFindingD26 ./internal/upstream/transport

import (
	"context"
	"testing"
	"time"

	"github.com/quic-go/quic-go"
)

func TestFindingD26(t *testing.T) {
	dialStarted := make(chan struct{})
	tr := NewQuicTransport(QuicTransportOpts{
		DialContext: func(ctx context.Context) (quic.Connection, error) {
			close(dialStarted)
			<-ctx.Done() // the dial is aborted by Close (the dial context derives from the transport's)
			return nil, context.Cause(ctx)
		},
	})
	done := make(chan error, 1)
	go func() {
		_, err := tr.ExchangeContext(context.Background(), make([]byte, 12))
		done <- err
	}()
	<-dialStarted
	tr.Close()
	select {
	case err := <-done:
		if err == nil {
			t.Fatal("exchange on a closed transport returned no error")
		}
	case <-time.After(3 * time.Second):
		t.Fatal("the exchange is still waiting 3 s after Close: in-flight exchanges hang instead of failing")
	}
}
