package limiter

// Replay of finding D25 (property C15): the collector of idle buckets dropped every entry not seen for a minute,
// whatever its bucket held. With a burst that takes longer than a minute to refill (burst > 60 x rate) the
// client's debt was forgotten: after the collection the same subnet got a second full burst at once, so the cost
// admitted in a window exceeded burst + rate x window.
// Virtual time through AllowN's caller-supplied clock; gc() is the real collector (it reads the wall clock, so
// the history is placed two minutes in the past).
// Run from /repo with:  go test -overlay <ov.json> -vet=off -run TestFindingD25 ./internal/limiter

import (
	"net/netip"
	"testing"
	"time"
)

func TestFindingD25(t *testing.T) {
	const rate, burst = 1, 1000
	cl := NewClientLimiter(ClientLimiterOpts{Limit: rate, Burst: burst})
	defer cl.Close()
	addr := netip.MustParseAddr("192.0.2.7")
	t0 := time.Now().Add(-2 * time.Minute)
	admitted := 0
	if cl.AllowN(addr, t0, burst) {
		admitted += burst
	}
	cl.gc() // the periodic collection, more than a minute after the subnet was last seen
	t1 := t0.Add(90 * time.Second)
	for i := 0; i < 2*burst; i++ {
		if cl.AllowN(addr, t1, 1) {
			admitted++
		}
	}
	window := t1.Sub(t0).Seconds()
	if bound := burst + int(rate*window); admitted > bound {
		t.Fatalf("subnet was admitted cost %d within %.0fs, more than burst + rate x window = %d", admitted, window, bound)
	}
}
