package main

import (
	"flag"
	"fmt"
	"os"
	"path/filepath"
	"sort"
	"strings"
	"time"

	"govc/vc"
)

func main() {
	if len(os.Args) < 2 {
		fmt.Fprintln(os.Stderr, "usage: govc <func|check|replay> ...")
		os.Exit(2)
	}
	switch os.Args[1] {
	case "func":
		cmdFunc(os.Args[2:])
	case "check":
		os.Exit(vc.CmdCheck(os.Args[2:]))
	case "replay":
		os.Exit(vc.CmdReplay(os.Args[2:]))
	default:
		fmt.Fprintln(os.Stderr, "unknown command", os.Args[1])
		os.Exit(2)
	}
}

// cmdFunc: developer entry point — verify the named functions and print every obligation.
func cmdFunc(args []string) {
	fs := flag.NewFlagSet("func", flag.ExitOnError)
	repo := fs.String("repo", "/repo", "repository")
	pkgs := fs.String("pkgs", "./...", "package patterns (comma separated)")
	timeout := fs.Duration("timeout", 10*time.Second, "solver timeout")
	keep := fs.Bool("v", false, "verbose")
	ext := fs.String("ext", "/verif/specs/ext", "external specs dir")
	work := fs.String("work", "/verif/work/dev", "work dir")
	fs.Parse(args)
	t0 := time.Now()
	en, err := vc.Load(*repo, strings.Split(*pkgs, ","), "verif")
	if err != nil {
		fmt.Fprintln(os.Stderr, "load:", err)
		os.Exit(2)
	}
	if err := en.CS.LoadRepoContracts(en.RepoPkgDirs()); err != nil {
		fmt.Fprintln(os.Stderr, "contracts:", err)
		os.Exit(2)
	}
	if err := en.CS.LoadExtDir(*ext); err != nil {
		fmt.Fprintln(os.Stderr, "ext specs:", err)
		os.Exit(2)
	}
	fmt.Printf("loaded in %.1fs, %d contracts\n", time.Since(t0).Seconds(), len(en.CS.Funcs))
	var keys []string
	for k, fc := range en.CS.Funcs {
		if fc.Trusted || fc.External || (fc.Inline && len(fc.Props) == 0) {
			continue
		}
		if len(fs.Args()) == 0 {
			keys = append(keys, k)
			continue
		}
		for _, a := range fs.Args() {
			if strings.HasSuffix(k, a) || strings.Contains(k, a) {
				keys = append(keys, k)
				break
			}
		}
	}
	sort.Strings(keys)
	cfg := vc.SolverCfg{Timeout: *timeout, WorkDir: *work, Parallel: 16, Solvers: []string{"z3new", "z3", "cvc5"}}
	vc.CoverCallsites = true // the developer runner always probes pinned calls for reachability
	bad := 0
	for _, k := range keys {
		fc := en.CS.Funcs[k]
		t1 := time.Now()
		res := en.VerifyFunc(fc)
		gen := time.Since(t1).Seconds()
		if res.Err != "" {
			fmt.Printf("== %s: ERROR %s\n", k, res.Err)
			bad++
			continue
		}
		t2 := time.Now()
		var obls, covers []*vc.Obligation
		for _, o := range res.Obls {
			if o.Kind != "cover" {
				obls = append(obls, o)
			} else {
				covers = append(covers, o)
			}
		}
		res.Obls = obls
		vc.Discharge(res.Obls, cfg)
		// vacuity probes: "false" must not be provable at loop heads and exits
		ccfg := cfg
		ccfg.Timeout = 2 * time.Second
		ccfg.NoSecondWave = true
		ccfg.WorkDir = filepath.Join(*work, "cover")
		vc.Discharge(covers, ccfg)
		for _, c := range covers {
			if c.Status == "discharged" && c.Solver != "trivial" {
				fmt.Printf("   VACUOUS    %-8s %6.2fs %s  [%s] false is provable here: contradictory precondition, invariant or assumption\n", c.Solver, c.Seconds, c.Name, c.Pos)
				bad++
			}
		}
		nd := 0
		for _, o := range res.Obls {
			if o.Status == "discharged" {
				nd++
			}
		}
		fmt.Printf("== %s: %d/%d discharged (gen %.2fs, solve %.2fs)\n", k, nd, len(res.Obls), gen, time.Since(t2).Seconds())
		for _, n := range res.Notes {
			if strings.Contains(n, "cannot be evaluated") {
				fmt.Printf("   NOTE       %s\n", n)
			}
		}
		for _, o := range res.Obls {
			if o.Status != "discharged" || *keep {
				fmt.Printf("   %-10s %-8s %6.2fs %s  [%s] %s\n", o.Status, o.Solver, o.Seconds, o.Name, o.Pos, o.Output)
				if o.Status != "discharged" {
					bad++
				}
			}
		}
		if *keep {
			for _, n := range res.Notes {
				fmt.Println("   note:", n)
			}
		}
	}
	if bad > 0 {
		os.Exit(1)
	}
}
