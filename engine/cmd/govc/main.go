package main

import (
	_ "golang.org/x/tools/go/packages"
	_ "golang.org/x/tools/go/ssa"
	_ "golang.org/x/tools/go/ssa/ssautil"
)

func main() {}
