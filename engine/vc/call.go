package vc

import (
	"os"
	"fmt"
	"go/token"
	"go/types"
	"strings"

	"golang.org/x/tools/go/ssa"
)

// FuncKey returns the contract key of an SSA function: pkgpath.[Recv.]Name
func FuncKey(fn *ssa.Function) string {
	if fn.Parent() != nil {
		// anonymous function: parent key + $n
		return FuncKey(fn.Parent()) + "$" + strings.TrimPrefix(fn.Name(), fn.Parent().Name()+"$")
	}
	o := fn
	if fn.Origin() != nil {
		o = fn.Origin()
	}
	pkgPath := ""
	if o.Pkg != nil {
		pkgPath = o.Pkg.Pkg.Path()
	} else if obj := o.Object(); obj != nil && obj.Pkg() != nil {
		pkgPath = obj.Pkg().Path()
	}
	if recv := o.Signature.Recv(); recv != nil {
		t := recv.Type()
		if p, ok := t.(*types.Pointer); ok {
			t = p.Elem()
		}
		name := "?"
		if n, ok := t.(*types.Named); ok {
			name = n.Obj().Name()
			if n.Obj().Pkg() != nil {
				pkgPath = n.Obj().Pkg().Path()
			}
		}
		return pkgPath + "." + name + "." + o.Name()
	}
	return pkgPath + "." + o.Name()
}

func shortKey(k string) string {
	if i := strings.LastIndex(k, "/"); i >= 0 {
		return k[i+1:]
	}
	return k
}

func (fr *Frame) inStack(fn *ssa.Function) bool {
	for f := fr; f != nil; f = f.parent {
		if f.fn == fn {
			return true
		}
	}
	return false
}

func hasLoops(fn *ssa.Function) bool {
	for _, b := range fn.Blocks {
		for _, s := range b.Succs {
			if s.Dominates(b) {
				return true
			}
		}
	}
	return false
}

var inlinePkgs = map[string]bool{
	"encoding/binary": true,
	"strings":         true,
	"internal/stringslite": true,
	"net/netip":            true,
	"internal/byteorder":   true,
}

// execCall handles a call; returns result values (len = number of results).
func (fr *Frame) execCall(st *State, cc *ssa.CallCommon, instr ssa.Instruction, pos token.Pos) []Val {
	// builtins
	if b, ok := cc.Value.(*ssa.Builtin); ok {
		return fr.execBuiltin(st, b, cc, instr, pos)
	}
	var args []Val
	if cc.IsInvoke() {
		recv := fr.val(st, cc.Value)
		args = append(args, recv)
		for _, a := range cc.Args {
			args = append(args, fr.val(st, a))
		}
		return fr.execInvoke(st, cc, args, pos)
	}
	for _, a := range cc.Args {
		args = append(args, fr.val(st, a))
	}
	if fn := cc.StaticCallee(); fn != nil {
		var binds []Val
		if mc, ok := cc.Value.(*ssa.MakeClosure); ok {
			cv := fr.val(st, mc)
			binds = cv.Binds
		}
		return fr.callFunction(st, fn, args, binds, cc.Signature(), pos)
	}
	// dynamic call of a function value
	fv := fr.val(st, cc.Value)
	if fv.K == KClosure {
		return fr.callFunction(st, fv.Fn, args, fv.Binds, cc.Signature(), pos)
	}
	// unknown function value
	if fv.K == KNormal && len(fv.C) == 1 {
		nn := Not(Eq(fv.C[0], Nil))
		fr.oblige(st, "nil-func-call", fr.describe(cc.Value), nn, nil, pos)
		fr.assume(st, nn)
	}
	// hooks see a call through a function-valued variable or field under that variable's / field's name
	// (t.opts.DialContext(ctx) is "DialContext"); arg0 is the first argument
	dname := fr.describe(cc.Value)
	if i := strings.LastIndex(dname, "."); i >= 0 {
		dname = dname[i+1:]
	}
	if isPlainIdent(dname) {
		fr.callHooks(st, dname, args, pos)
		res := fr.execDynCall(st, cc, fv, args, pos)
		fr.ghostCallUpdates(st, dname, args, res, true)
		return res
	}
	return fr.execDynCall(st, cc, fv, args, pos)
}

func isPlainIdent(s string) bool {
	if s == "" {
		return false
	}
	for i, r := range s {
		if !(r == '_' || r >= 'a' && r <= 'z' || r >= 'A' && r <= 'Z' || (i > 0 && r >= '0' && r <= '9')) {
			return false
		}
	}
	return true
}

func (fr *Frame) execDynCall(st *State, cc *ssa.CallCommon, fv Val, args []Val, pos token.Pos) []Val {
	if n, ok := cc.Value.Type().(*types.Named); ok && n.Obj().Pkg() != nil && n.Obj().Pkg().Path() == "context" &&
		(n.Obj().Name() == "CancelFunc" || n.Obj().Name() == "CancelCauseFunc") {
		fr.top.note("calling a context cancel function is assumed to have no effect on the program's heap")
		return fr.freshResults(st, cc.Signature(), "cancel")
	}
	if root := fr.hookRoot(); root != nil {
		d := fr.describe(cc.Value)
		for _, n := range root.fc.DynPure {
			if d == n || strings.HasSuffix(d, "."+n) {
				fr.top.trusted["calls through "+n+" in "+shortKey(root.fc.Key)+" are assumed not to modify the modelled heap (callback supplied by the caller)"] = true
				return fr.freshResults(st, cc.Signature(), "dyn")
			}
		}
	}
	fr.top.note("call of unknown function value " + fr.describe(cc.Value) + " in " + fr.fn.Name() + ": heap havocked")
	return fr.havocCall(st, cc.Signature(), "dyn")
}

func (fr *Frame) callFunction(st *State, fn *ssa.Function, args []Val, binds []Val, sig *types.Signature, pos token.Pos) []Val {
	res := fr.callFunction0(st, fn, args, binds, sig, pos)
	fr.ghostCallUpdates(st, fnHookNames(fn), args, res, true)
	return res
}

func (fr *Frame) callFunction0(st *State, fn *ssa.Function, args []Val, binds []Val, sig *types.Signature, pos token.Pos) []Val {
	key := FuncKey(fn)
	fc := fr.en.CS.Funcs[key]
	// recursion: the function under verification calls itself (directly or through inlined
	// code); no variant for recursion is supported, so termination cannot be shown
	root := fr
	for root.parent != nil {
		root = root.parent
	}
	if fn == root.fn && fn != nil {
		fr.oblige(st, "termination", "recursive-call-without-variant", False, nil, pos)
	}
	fr.callHooks(st, fnHookNames(fn), args, pos)
	if fc != nil && fc.Spawns != "" {
		fr.spawnViaCall(st, fc, args, pos)
	}
	if fc != nil && fc.Calls != "" {
		// a callback the callee may run (sync.Once.Do): the callback's own preconditions must hold here
		for i, p := range fc.Params {
			if p == fc.Calls && i < len(args) && args[i].K == KClosure && fr.hookRoot() != nil {
				fr.spawnPreFn(st, args[i].Fn, args[i].Binds, nil, pos)
			}
		}
	}
	if fc != nil && !fc.Inline {
		fc.Used = true
		return fr.applyContract(st, fc, sig, args, pos, shortKey(key))
	}
	if fr.canInline(fn, fc) {
		return fr.inline(st, fn, fc, args, binds, pos)
	}
	if fr.en.isEffectFree(fn) {
		fr.top.note("call to " + key + " assumed effect-free (logging/metrics)")
		return fr.freshResults(st, sig, shortKey(key))
	}
	fr.top.note("call to " + key + " without contract: heap havocked, results unconstrained")
	return fr.havocCall(st, sig, shortKey(key))
}

func (fr *Frame) canInline(fn *ssa.Function, fc *FuncContract) bool {
	if len(fn.Blocks) == 0 || fr.depth >= 12 || fr.inStack(fn) {
		return false
	}
	if fc != nil && fc.Inline {
		return true
	}
	if fn.Parent() != nil { // closure defined in a function we are executing
		return !hasLoops(fn)
	}
	pkgPath := ""
	if fn.Pkg != nil {
		pkgPath = fn.Pkg.Pkg.Path()
	} else if fn.Origin() != nil && fn.Origin().Pkg != nil {
		pkgPath = fn.Origin().Pkg.Pkg.Path()
	}
	if hasLoops(fn) {
		return false
	}
	if strings.HasPrefix(pkgPath, fr.en.ModulePath) {
		n := 0
		for _, b := range fn.Blocks {
			n += len(b.Instrs)
		}
		return n <= 400
	}
	return inlinePkgs[pkgPath]
}

func (fr *Frame) inline(st *State, fn *ssa.Function, fc *FuncContract, args []Val, binds []Val, pos token.Pos) []Val {
	sub := &Frame{en: fr.en, top: fr.top, ctx: fr.ctx, fn: fn, fc: fc, regs: map[ssa.Value]Val{}, cellOf: map[*ssa.Alloc]int{},
		depth: fr.depth + 1, parent: fr, binds: binds, localNames: map[string][]*ssa.Alloc{}}
	sub.inl = fr.inl + "@" + fn.Name()
	if fn.Pkg != nil {
		sub.pkg = fn.Pkg.Pkg
	} else {
		sub.pkg = fr.pkg
	}
	if len(args) != len(fn.Params) {
		panic(unsupported(fmt.Sprintf("inline %s: %d args for %d params", fn.Name(), len(args), len(fn.Params))))
	}
	for i, p := range fn.Params {
		sub.regs[p] = args[i]
	}
	sub.params = args
	sub.entry = st.clone()
	ndef := len(st.defers)
	rst, vals := sub.execBody(st.clone())
	if rst == nil {
		// the callee never returns normally on any path
		st.pc = False
		var out []Val
		for i := 0; i < fn.Signature.Results().Len(); i++ {
			out = append(out, fr.en.zero(fn.Signature.Results().At(i).Type()))
		}
		return out
	}
	*st = *rst
	if len(st.defers) > ndef {
		st.defers = st.defers[:ndef]
	}
	return vals
}

func (fr *Frame) freshResults(st *State, sig *types.Signature, prefix string) []Val {
	var out []Val
	for i := 0; i < sig.Results().Len(); i++ {
		v := fr.fresh("ret_"+prefix, sig.Results().At(i).Type())
		fr.assumeWF(st, v)
		out = append(out, v)
	}
	return out
}

// havocAll forgets every heap.
func (fr *Frame) havocAll(st *State) {
	fr.top.nepoch++
	st.epoch = fr.top.nepoch
	keep := map[string]Term{}
	for hn, h := range st.heaps {
		if strings.HasPrefix(hn, "R:") {
			keep[hn] = h // ghost attribute marks survive a havoc
		}
	}
	st.heaps = keep
	na := fr.ctx.Fresh("alloc", SInt)
	fr.assume(st, IntCmp(">=", na, st.alloc))
	st.alloc = na
	st.havocs++
	// constant strings are immutable: restore their bytes
	fr.reassertConstStrings(st)
}

func (fr *Frame) reassertConstStrings(st *State) {
	if len(fr.top.constStrs) == 0 {
		return
	}
	hn := elemHeap(types.Typ[types.Uint8], "")
	srt := byteHeapSort
	h0 := fr.top.entryHeap(hn, srt)
	h := fr.heap(st, hn, srt)
	if h.S == h0.S {
		return
	}
	var cs []Term
	for _, o := range fr.top.constStrs {
		cs = append(cs, Eq(Select(h, o), Select(h0, o)))
	}
	fr.assume(st, And(cs...))
}

func (fr *Frame) havocCall(st *State, sig *types.Signature, prefix string) []Val {
	fr.havocAll(st)
	return fr.freshResults(st, sig, prefix)
}

// execInvoke: interface method call.
func (fr *Frame) execInvoke(st *State, cc *ssa.CallCommon, args []Val, pos token.Pos) []Val {
	res := fr.execInvoke0(st, cc, args, pos)
	fr.ghostCallUpdates(st, invokeHookNames(cc), args, res, true)
	return res
}

func (fr *Frame) execInvoke0(st *State, cc *ssa.CallCommon, args []Val, pos token.Pos) []Val {
	recvT := types.Unalias(cc.Value.Type())
	m := cc.Method
	key := ""
	if n, ok := recvT.(*types.Named); ok && n.Obj().Pkg() != nil {
		key = n.Obj().Pkg().Path() + "." + n.Obj().Name() + "." + m.Name()
	} else if n, ok := recvT.(*types.Named); ok {
		key = n.Obj().Name() + "." + m.Name() // error.Error
	}
	recv := args[0]
	nn := Not(Eq(recv.C[0], IntT(0)))
	fr.oblige(st, "nil-deref", fr.describe(cc.Value)+"."+m.Name(), nn, nil, pos)
	fr.assume(st, nn)
	fr.callHooks(st, invokeHookNames(cc), args, pos)
	if fc := fr.en.CS.Funcs[key]; fc != nil {
		fc.Used = true
		return fr.applyContract(st, fc, cc.Signature(), args, pos, shortKey(key))
	}
	if impls := fr.en.closedImpls(recvT, m); len(impls) > 0 {
		return fr.devirtualise(st, cc, impls, args, pos)
	}
	if m.Pkg() != nil {
		for _, e := range effectFreePkgs {
			if strings.HasPrefix(m.Pkg().Path(), e) {
				fr.top.note("interface call " + key + " assumed effect-free (logging/metrics)")
				return fr.freshResults(st, cc.Signature(), m.Name())
			}
		}
	}
	fr.top.note("interface call " + key + " without contract: heap havocked")
	return fr.havocCall(st, cc.Signature(), m.Name())
}

// applyContract: assert requires, havoc modifies, assume ensures.
func (fr *Frame) applyContract(st *State, fc *FuncContract, sig *types.Signature, args []Val, pos token.Pos, short string) []Val {
	if fc.Trusted {
		fr.top.trusted[fc.Key] = true
	}
	if len(args) < len(fc.Params) {
		panic(contractErr(fmt.Sprintf("contract %s has %d parameters, call has %d arguments", fc.Key, len(fc.Params), len(args))))
	}
	if len(args) > len(fc.Params) {
		// the function has gained trailing parameters the contract does not know: they stay unconstrained
		fr.top.note(fmt.Sprintf("call of %s passes %d arguments, its contract names %d: the extra trailing ones are not constrained", shortKey(fc.Key), len(args), len(fc.Params)))
	}
	sc := &Scope{fr: fr, st: st, vars: map[string]Val{}, entry: map[string]Val{}, pkg: fr.en.typesPkg(fc.PkgPath)}
	for i, p := range fc.Params {
		sc.vars[p] = args[i]
		sc.entry[p] = args[i]
	}
	for i, r := range fc.Requires {
		g := fr.evalBool(sc, r.E)
		fr.oblige(st, "pre", short+"."+clauseName(r, i), g, r, pos)
		fr.assume(st, g)
	}
	pre := st.clone()
	// frame
	switch {
	case fc.Calls != "" && fr.callbackIsFrameFree(fc, args):
		// "calls f" with a callback whose own (verified) contract says "modifies nothing": the call changes
		// nothing of the modelled heap either (sync.Once.Do only runs f)
	case fc.HasMod:
		tg := fr.resolveTargets(sc, fc.Modifies)
		fr.havocTargets(st, tg)
	default:
		fr.havocAll(st)
	}
	if !fc.Pure {
		na := fr.ctx.Fresh("alloc", SInt)
		fr.assume(st, IntCmp(">=", na, st.alloc))
		st.alloc = na
	}
	// results
	var res []Val
	post := &Scope{fr: fr, st: st, old: pre, vars: map[string]Val{}, entry: sc.entry, pkg: sc.pkg}
	for k, v := range sc.vars {
		post.vars[k] = v
	}
	for i := 0; i < sig.Results().Len(); i++ {
		v := fr.fresh("ret_"+short, sig.Results().At(i).Type())
		fr.assumeWF(st, v)
		res = append(res, v)
		if i < len(fc.Results) {
			post.vars[fc.Results[i]] = v
		} else if fc.IsClosure {
			post.vars[fmt.Sprintf("ret%d", i)] = v
		}
	}
	for _, e := range fc.Ensures {
		// clauses about the callee's ghost state or final locals cannot be stated at a call site
		if mentionsInternal(e.E, fc) {
			continue
		}
		// "ensures attr(n, x)" / "ensures !attr(n, x)" (possibly guarded: "c ==> attr(n, x)") mark the
		// object: the callee's effect on a ghost attribute is a store, everything else an assumption
		rest := []Expr{}
		for _, p := range SplitConj(e.E) {
			if !fr.attrMark(st, post, p) {
				rest = append(rest, p)
			}
		}
		for _, p := range rest {
			fr.assume(st, fr.evalBool(post, p))
		}
	}
	return res
}

// attrMark executes an ensures conjunct of the form [cond ==>] [!]attr(name, x) as a store on the
// attribute heap; returns false when p has another form.
func (fr *Frame) attrMark(st *State, sc *Scope, p Expr) bool {
	cond := True
	if b, ok := p.(*EBin); ok && b.Op == "==>" {
		if _, ok := attrCall(b.Y); ok {
			cond = fr.evalBool(sc, b.X)
			p = b.Y
		}
	}
	val, ok := attrCall(p)
	if !ok {
		return false
	}
	call := p
	if u, ok := p.(*EUn); ok {
		call = u.X
	}
	c := call.(*ECall)
	name := c.Args[0].(*EIdent).Name
	if _, ok := fr.en.CS.Attrs[name]; !ok {
		panic(contractErr("attr " + name + " is not declared"))
	}
	ref := fr.refOf(fr.evalExpr(sc, c.Args[1]))
	hn := "R:" + name
	h := fr.heap(st, hn, ArrSort(SInt, SBool))
	nv := True
	if !val {
		nv = False
	}
	fr.setHeap(st, hn, Ite(cond, Store(h, ref, nv), h))
	return true
}

// attrCall recognises attr(n, x) (true) and !attr(n, x) (false).
func attrCall(e Expr) (bool, bool) {
	val := true
	if u, ok := e.(*EUn); ok && u.Op == "!" {
		e, val = u.X, false
	}
	c, ok := e.(*ECall)
	if !ok || len(c.Args) != 2 {
		return false, false
	}
	id, ok := c.Fun.(*EIdent)
	if !ok || id.Name != "attr" {
		return false, false
	}
	if _, ok := c.Args[0].(*EIdent); !ok {
		return false, false
	}
	return val, true
}

// ---------------------------------------------------------------------------
// builtins

func (fr *Frame) execBuiltin(st *State, b *ssa.Builtin, cc *ssa.CallCommon, instr ssa.Instruction, pos token.Pos) []Val {
	intT := types.Typ[types.Int]
	arg := func(i int) Val { return fr.val(st, cc.Args[i]) }
	switch b.Name() {
	case "len", "cap":
		v := arg(0)
		switch u := cc.Args[0].Type().Underlying().(type) {
		case *types.Slice:
			if b.Name() == "len" {
				return []Val{scalar(intT, v.Len())}
			}
			return []Val{scalar(intT, v.Cap())}
		case *types.Basic:
			return []Val{scalar(intT, v.Len())}
		case *types.Array:
			return []Val{scalar(intT, IntT(u.Len()))}
		case *types.Pointer:
			at := u.Elem().Underlying().(*types.Array)
			return []Val{scalar(intT, IntT(at.Len()))}
		case *types.Map:
			n := fr.ctx.Fresh("maplen", SInt)
			fr.assume(st, And(ILe(IntT(0), n), ILe(n, IntT(maxObj))))
			return []Val{scalar(intT, n)}
		case *types.Chan:
			n := fr.ctx.Fresh("chanlen", SInt)
			fr.assume(st, And(ILe(IntT(0), n), ILe(n, IntT(maxObj))))
			return []Val{scalar(intT, n)}
		}
	case "copy":
		dst, src := arg(0), arg(1)
		et := cc.Args[0].Type().Underlying().(*types.Slice).Elem()
		n := Ite(ILe(dst.Len(), src.Len()), dst.Len(), src.Len())
		n = fr.ctx.Def("n", n)
		fr.copyRange(st, dst.Obj(), dst.Off(), src.Obj(), src.Off(), n, et)
		return []Val{scalar(intT, n)}
	case "append":
		return []Val{fr.execAppend(st, cc, pos)}
	case "clear":
		v := arg(0)
		switch u := cc.Args[0].Type().Underlying().(type) {
		case *types.Slice:
			fr.zeroRange(st, v.Obj(), v.Off(), v.Len(), u.Elem())
		case *types.Map:
			fr.mapInitEmpty(st, v.Term(), cc.Args[0].Type())
		}
		return nil
	case "min", "max":
		a, c := arg(0), arg(1)
		var le Term
		if isWide(cc.Args[0].Type()) {
			le = ILe(a.Term(), c.Term())
		} else {
			op := "bvule"
			if isSigned(cc.Args[0].Type()) {
				op = "bvsle"
			}
			le = BVCmp(op, a.Term(), c.Term())
		}
		if b.Name() == "min" {
			return []Val{scalar(cc.Args[0].Type(), Ite(le, a.Term(), c.Term()))}
		}
		return []Val{scalar(cc.Args[0].Type(), Ite(le, c.Term(), a.Term()))}
	case "delete":
		m := arg(0)
		mt := cc.Args[0].Type().Underlying().(*types.Map)
		k := fr.mapKey(st, mt, arg(1))
		fr.mapDelete(st, m.Term(), mt, cc.Args[0].Type(), k)
		return nil
	case "close":
		// "callsite close:" / "oncall close:" hooks: arg0 is the channel being closed
		fr.callHooks(st, "close", []Val{arg(0)}, pos)
		return nil
	case "print", "println":
		return nil
	case "recover":
		return []Val{fr.en.zero(types.NewInterfaceType(nil, nil))}
	case "ssa:wrapnilchk":
		return []Val{arg(0)}
	case "ssa:deferstack":
		return []Val{{K: KNormal, T: cc.Signature().Results().At(0).Type()}}
	}
	panic(unsupported("builtin " + b.Name()))
}

// copyRange: dst[dOff+j] = src_old[sOff+j] for 0<=j<n.
func (fr *Frame) copyRange(st *State, dObj, dOff, sObj, sOff, n Term, et types.Type) {
	fr.copyInto(st, dObj, dOff, sObj, sOff, n, et)
}

func (fr *Frame) zeroRange(st *State, obj, off, n Term, et types.Type) {
	l := fr.en.layout(et)
	for k, c := range l {
		old := fr.ctx.Def("old", fr.objArray(st, obj, et, k))
		na := fr.ctx.Fresh("clr", old.Sort)
		j := Term{"j!cl", SInt}
		inr := InRange(j, off, IAdd(off, n))
		fr.assume(st, Forall([]Term{j}, Eq(Select(na, j), Ite(inr, c.Zero, Select(old, j))), Select(na, j)))
		fr.setObjArray(st, obj, et, k, na)
	}
}

func constLen(t Term) (int64, bool) { return isIntLit(t) }

func (fr *Frame) execAppend(st *State, cc *ssa.CallCommon, pos token.Pos) Val {
	s := fr.val(st, cc.Args[0])
	e := fr.val(st, cc.Args[1])
	st0T := cc.Args[0].Type()
	et := st0T.Underlying().(*types.Slice).Elem()
	// append([]byte, string...) has a string second argument
	n := e.Len()
	newLen := fr.ctx.Def("nlen", IAdd(s.Len(), n))
	fits := fr.ctx.Def("fits", ILe(newLen, s.Cap()))
	// in-place branch
	stIn := st.clone()
	stIn.pc = fr.ctx.Def("pc", And(st.pc, fits))
	fr.copyAppend(stIn, s.Obj(), IAdd(s.Off(), s.Len()), e, n, et)
	inPlace := mkSlice(st0T, s.Obj(), s.Off(), newLen, s.Cap())
	// grow branch
	stGr := st.clone()
	stGr.pc = fr.ctx.Def("pc", And(st.pc, Not(fits)))
	obj := fr.newObject(stGr, "grow")
	ncap := fr.ctx.Fresh("ncap", SInt)
	fr.assume(stGr, And(ILe(newLen, ncap), ILe(ncap, IntT(maxObj))))
	// copy old prefix then the new elements
	fr.copyInto(stGr, obj, IntT(0), s.Obj(), s.Off(), s.Len(), et)
	fr.copyAppend(stGr, obj, s.Len(), e, n, et)
	grown := mkSlice(st0T, obj, IntT(0), newLen, ncap)
	pc := st.pc
	m := fr.mergeStates([]*State{stIn, stGr})
	*st = *m
	st.pc = pc
	res, _ := iteVal(fits, inPlace, grown)
	return res
}

// copyAppend writes the n elements of e at obj[at...]; small constant n uses stores.
func (fr *Frame) copyAppend(st *State, obj, at Term, e Val, n Term, et types.Type) {
	_ = fr
	if c, ok := constLen(n); ok && c <= 8 {
		for i := int64(0); i < c; i++ {
			v := fr.loadElem(st, e.Obj(), IAdd(e.Off(), IntT(i)), et, 0, -1, et)
			fr.storeElem(st, obj, IAdd(at, IntT(i)), et, 0, -1, v)
		}
		return
	}
	fr.copyInto(st, obj, at, e.Obj(), e.Off(), n, et)
}

// ---------------------------------------------------------------------------
// defer / go

func (fr *Frame) execDefer(st *State, x *ssa.Defer) {
	d := deferred{guard: st.pc, call: &x.Call, instr: x, frame: fr}
	if !x.Call.IsInvoke() {
		if _, ok := x.Call.Value.(*ssa.Builtin); !ok {
			if x.Call.StaticCallee() == nil {
				d.fnVal = fr.val(st, x.Call.Value)
			} else if mc, ok := x.Call.Value.(*ssa.MakeClosure); ok {
				d.fnVal = fr.val(st, mc)
			}
		}
	} else {
		d.fnVal = fr.val(st, x.Call.Value)
	}
	for _, a := range x.Call.Args {
		d.args = append(d.args, fr.val(st, a))
	}
	st.defers = append(st.defers, d)
}

func (fr *Frame) runDefers(st *State, x *ssa.RunDefers) {
	var mine []deferred
	var rest []deferred
	for _, d := range st.defers {
		if d.frame == fr {
			mine = append(mine, d)
		} else {
			rest = append(rest, d)
		}
	}
	st.defers = rest
	for i := len(mine) - 1; i >= 0; i-- {
		d := mine[i]
		cond := fr.ctx.Def("dg", And(st.pc, d.guard))
		if cond.S == "false" {
			continue
		}
		run := st.clone()
		run.pc = cond
		fr.runDeferred(run, d, x.Pos())
		skip := st.clone()
		skip.pc = fr.ctx.Def("pc", And(st.pc, Not(d.guard)))
		pc := st.pc
		var m *State
		if skip.pc.S == "false" {
			m = run
		} else if run.pc.S == "false" {
			m = skip
		} else {
			m = fr.mergeStates([]*State{run, skip})
		}
		*st = *m
		if run.pc.S != "false" && skip.pc.S == "false" {
			st.pc = pc
		}
		if m != run && m != skip {
			st.pc = pc
		}
	}
}

func (fr *Frame) runDeferred(st *State, d deferred, pos token.Pos) {
	cc := d.call
	if b, ok := cc.Value.(*ssa.Builtin); ok {
		_ = b
		fr.top.note("deferred builtin ignored")
		return
	}
	if cc.IsInvoke() {
		args := append([]Val{d.fnVal}, d.args...)
		fr.execInvoke(st, cc, args, pos)
		return
	}
	if fn := cc.StaticCallee(); fn != nil {
		fr.callFunction(st, fn, d.args, d.fnVal.Binds, cc.Signature(), pos)
		return
	}
	if d.fnVal.K == KClosure {
		fr.callFunction(st, d.fnVal.Fn, d.args, d.fnVal.Binds, cc.Signature(), pos)
		return
	}
	if n, ok := cc.Value.Type().(*types.Named); ok && n.Obj().Pkg() != nil && n.Obj().Pkg().Path() == "context" &&
		(n.Obj().Name() == "CancelFunc" || n.Obj().Name() == "CancelCauseFunc") {
		fr.top.note("calling a context cancel function is assumed to have no effect on the program's heap")
		return
	}
	fr.top.note("deferred call of unknown function value: heap havocked")
	fr.havocAll(st)
}

func (fr *Frame) execGo(st *State, x *ssa.Go) {
	// The goroutine body is not executed here (it is verified on its own if it has a contract).
	var gargs []Val
	fr.top.goCaps = nil
	for _, a := range x.Call.Args {
		v := fr.val(st, a)
		gargs = append(gargs, v)
		fr.top.goCaps = append(fr.top.goCaps, fr.refComps(v)...)
	}
	fr.top.goCapVars = map[string]bool{}
	fr.top.goCapStale = map[string]bool{}
	if !x.Call.IsInvoke() {
		if fv := fr.val(st, x.Call.Value); fv.K == KClosure {
			for _, v := range fv.Fn.FreeVars {
				fr.top.goCapVars[v.Name()] = true
			}
			// which captured variables live across iterations of the loop the spawn sits in: those whose
			// declaration (the ssa.Alloc of the captured cell) is not inside that loop
			var inner *loopInfo
			for _, li := range fr.loops {
				if li.blocks[x.Block()] && (inner == nil || len(li.blocks) < len(inner.blocks)) {
					inner = li
				}
			}
			if inner != nil {
				for i, b := range fv.Binds {
					if b.K != KCellPtr || i >= len(fv.Fn.FreeVars) {
						continue
					}
					for al, id := range fr.cellOf {
						if id == b.Cell && !inner.blocks[al.Block()] {
							fr.top.goCapStale[fv.Fn.FreeVars[i].Name()] = true
						}
					}
				}
			}
			for _, b := range fv.Binds {
				if b.K == KCellPtr {
					if cv, ok := st.cells[b.Cell]; ok {
						fr.top.goCaps = append(fr.top.goCaps, fr.refComps(cv)...)
					}
				} else {
					fr.top.goCaps = append(fr.top.goCaps, fr.refComps(b)...)
				}
			}
		}
	}
	fr.callHooks(st, "go", gargs, x.Pos()) // "oncall go:" / "callsite go:" hooks count and constrain spawns
	fr.spawnPre(st, x, gargs)
	name := "?"
	if fn := x.Call.StaticCallee(); fn != nil {
		name = fn.Name()
	}
	fr.top.note("go " + name + " in " + fr.fn.Name() + ": goroutine body not executed in the spawner; concurrent effects not modelled")
}

// devirtualise: the interface has unexported methods, so only types of its own package can
// implement it (closed world). The call is split on the dynamic type tag and each case
// goes to the concrete method (its contract, or inlined).
func (fr *Frame) devirtualise(st *State, cc *ssa.CallCommon, impls []implMethod, args []Val, pos token.Pos) []Val {
	recv := args[0]
	var sts []*State
	var rets [][]Val
	var conds []Term
	for _, im := range impls {
		cond := Eq(recv.C[0], IntT(int64(fr.en.typeTag(im.recvT))))
		b := st.clone()
		b.pc = fr.ctx.Def("pc", And(st.pc, cond))
		if b.pc.S == "false" {
			continue
		}
		a2 := append([]Val{scalar(im.recvT, recv.C[1])}, args[1:]...)
		res := fr.callFunction(b, im.fn, a2, nil, im.fn.Signature, pos)
		if b.pc.S == "false" {
			continue
		}
		sts = append(sts, b)
		rets = append(rets, res)
		conds = append(conds, cond)
	}
	// closed world: a non-nil value has one of the known dynamic types
	fr.assume(st, Or(conds...))
	if len(sts) == 0 {
		st.pc = False
		return fr.freshResults(st, cc.Signature(), "devirt")
	}
	pc := st.pc
	m := fr.mergeStates(sts)
	n := cc.Signature().Results().Len()
	out := make([]Val, n)
	for k := 0; k < n; k++ {
		cur := rets[len(rets)-1][k]
		for i := len(rets) - 2; i >= 0; i-- {
			x, ok := iteVal(sts[i].pc, rets[i][k], cur)
			if !ok {
				panic(unsupported("cannot merge devirtualised results"))
			}
			cur = x
		}
		if cur.K == KNormal {
			nc := make([]Term, len(cur.C))
			for i := range cur.C {
				nc[i] = fr.ctx.Def("dv", cur.C[i])
			}
			cur.C = nc
		}
		out[k] = cur
	}
	*st = *m
	st.pc = pc
	return out
}

// callbackIsFrameFree: the argument bound to the contract's "calls" parameter is a function literal whose contract
// is not trusted and declares "modifies nothing".
func (fr *Frame) callbackIsFrameFree(fc *FuncContract, args []Val) bool {
	for i, p := range fc.Params {
		if p != fc.Calls || i >= len(args) || args[i].K != KClosure {
			continue
		}
		cc := fr.en.CS.Funcs[FuncKey(args[i].Fn)]
		return cc != nil && !cc.Trusted && cc.HasMod && len(cc.Modifies) == 0
	}
	return false
}

// mentionsInternal: the clause refers to ghost variables of the callee or to final(local).
func mentionsInternal(e Expr, fc *FuncContract) bool {
	ghost := map[string]bool{}
	for _, g := range fc.Ghosts {
		ghost[g.Name] = true
	}
	found := false
	var walk func(e Expr)
	walk = func(e Expr) {
		if found || e == nil {
			return
		}
		switch x := e.(type) {
		case *EIdent:
			if ghost[x.Name] {
				found = true
			}
		case *EBin:
			walk(x.X)
			walk(x.Y)
		case *EUn:
			walk(x.X)
		case *ECall:
			if id, ok := x.Fun.(*EIdent); ok && id.Name == "final" {
				found = true
				return
			}
			walk(x.Fun)
			for _, a := range x.Args {
				walk(a)
			}
		case *ESel:
			walk(x.X)
		case *EIndex:
			walk(x.X)
			walk(x.I)
		case *ESlice:
			walk(x.X)
			walk(x.Lo)
			walk(x.Hi)
		case *ECond:
			walk(x.C)
			walk(x.A)
			walk(x.B)
		}
	}
	walk(e)
	return found
}

// callHooks runs, for a call made directly by the function under verification, its call-site
// assertions and its oncall ghost updates (arguments are arg0, arg1, ...; receiver first).
// hookName: the name hooks are keyed by (generic instances without their type arguments).
func hookName(n string) string {
	if i := strings.IndexByte(n, '['); i > 0 {
		return n[:i]
	}
	return n
}

// hookRoot: the frame whose contract's hooks see the calls made in fr: fr itself when it is the function
// under verification, or that function when fr is a callee expanded because its contract says "inline".
func (fr *Frame) hookRoot() *Frame {
	f := fr
	for f.parent != nil {
		// expanded callees: those whose contract says "inline" and module functions without a contract
		if f.fc != nil && !f.fc.Inline {
			return nil
		}
		if f.fc == nil && (f.fn == nil || f.fn.Pkg == nil || !fr.en.inModule(f.fn.Pkg.Pkg.Path())) {
			return nil
		}
		f = f.parent
	}
	if f.fc == nil {
		return nil
	}
	return f
}

// fnHookNames / invokeHookNames: a call is seen by hooks under its bare name and, for methods, under
// "Recv.Name" as well (the receiver's type name without package), joined by "|".
func fnHookNames(fn *ssa.Function) string {
	n := hookName(fn.Name())
	if fn.Signature != nil && fn.Signature.Recv() != nil {
		if r := recvTypeName(fn.Signature.Recv().Type()); r != "" {
			return n + "|" + r + "." + n
		}
	}
	return n
}

func invokeHookNames(cc *ssa.CallCommon) string {
	n := cc.Method.Name()
	if r := recvTypeName(cc.Value.Type()); r != "" {
		return n + "|" + r + "." + n
	}
	return n
}

func recvTypeName(t types.Type) string {
	t = types.Unalias(t)
	if p, ok := t.(*types.Pointer); ok {
		t = types.Unalias(p.Elem())
	}
	if n, ok := t.(*types.Named); ok {
		return n.Obj().Name()
	}
	return ""
}

func (fr *Frame) callHooks(st *State, names string, args []Val, pos token.Pos) {
	if strings.Contains(names, "|") {
		for _, n := range strings.Split(names, "|") {
			fr.callHooks(st, n, args, pos)
		}
		return
	}
	name := names
	fr = fr.hookRoot()
	if fr == nil {
		return
	}
	name = hookName(name)
	fr.top.hookSeen[name] = true
	if cls := fr.fc.CallSites[name]; len(cls) > 0 {
		sc := fr.loopScope(st, st.alloc)
		for i, a := range args {
			sc.vars[fmt.Sprintf("arg%d", i)] = a
		}
		for i, c := range cls {
			parts := SplitConj(c.E)
			for k, p := range parts {
				nm := name + "." + clauseName(c, i)
				if len(parts) > 1 {
					nm = fmt.Sprintf("%s.%d", nm, k+1)
				}
				cc := *c
				cc.E, cc.Text = p, ExprString(p)
				// a clause that can no longer be evaluated at this call (the callee's parameters changed
				// shape under it) is an obligation that fails, not a tool error
				g := func() (g Term) {
					defer func() {
						if e := recover(); e != nil {
							switch e.(type) {
							case contractErr, unsupportedErr:
								fr.top.note(fmt.Sprintf("callsite clause %s cannot be evaluated at this call of %s any more: %v", nm, name, e))
								g = False
							default:
								panic(e)
							}
						}
					}()
					return fr.evalBool(sc, p)
				}()
				fr.oblige(st, "callsite", nm, g, &cc, pos)
			}
		}
		if CoverCallsites {
			// vacuity probe: a call whose arguments a contract pins must be reachable under that contract
			fr.oblige(st, "cover", "callsite:"+name, False, nil, pos)
		}
	}
	fr.ghostCallUpdates(st, name, args, nil, false)
}

// CoverCallsites adds a vacuity probe at every call whose arguments a contract pins (developer runner and
// thorough tier).
var CoverCallsites = os.Getenv("GOVC_COVER_CALLSITES") != ""

func (fr *Frame) ghostCallUpdates(st *State, names string, args []Val, res []Val, after bool) {
	if strings.Contains(names, "|") {
		for _, n := range strings.Split(names, "|") {
			fr.ghostCallUpdates(st, n, args, res, after)
		}
		return
	}
	name := names
	fr = fr.hookRoot()
	if fr == nil {
		return
	}
	name = hookName(name)
	fr.top.hookSeen[name] = true
	for _, gu := range fr.fc.GhostUps {
		if gu.OnCall != name || gu.After != after {
			continue
		}
		sc := fr.loopScope(st, st.alloc)
		for i, a := range args {
			sc.vars[fmt.Sprintf("arg%d", i)] = a
		}
		for i, a := range res {
			sc.vars[fmt.Sprintf("ret%d", i)] = a
		}
		if gu.Mark {
			if !fr.attrMark(st, sc, gu.E) {
				panic(contractErr("markcall needs [cond ==>] [!]attr(name, x): " + gu.Text))
			}
			continue
		}
		if gu.Assume {
			fr.assume(st, fr.evalBool(sc, gu.E))
			fr.top.trusted["assumed about results of "+gu.OnCall+" in "+shortKey(fr.fc.Key)+": "+strings.TrimSpace(gu.Text[strings.Index(gu.Text, ":")+1:])] = true
			continue
		}
		v := fr.evalExpr(sc, gu.E)
		if old, ok := st.ghost[gu.Name]; ok {
			if isNilConst(v) && old.K == KNormal && old.T != nil {
				v = fr.en.zero(old.T)
			}
			v = fr.coerce(v, old)
			cond := True
			if fr.top.hookCond.S != "" {
				cond = fr.top.hookCond // the hooked event happens only under this condition (a select case)
			}
			if m, ok := iteVal(cond, v, old); ok {
				v = m
			}
		}
		st.ghost[gu.Name] = v
	}
}

// refComp is one reference-valued component of a value with the static type it was found at.
type refComp struct {
	T types.Type
	C Term
}

// refComps lists the reference-valued components of a value (pointers, maps, channels, function
// values, the objects of strings and slices, the payload of interfaces; arrays are skipped).
func (fr *Frame) refComps(v Val) []refComp {
	if v.K != KNormal || v.T == nil {
		return nil
	}
	var out []refComp
	i := 0
	var walk func(t types.Type)
	walk = func(t types.Type) {
		n := len(fr.en.layout(t))
		if i+n > len(v.C) {
			i += n
			return
		}
		switch u := t.Underlying().(type) {
		case *types.Pointer, *types.Map, *types.Chan, *types.Signature:
			out = append(out, refComp{t, v.C[i]})
			i++
		case *types.Slice:
			out = append(out, refComp{t, v.C[i]})
			i += 4
		case *types.Interface:
			out = append(out, refComp{t, v.C[i+1]})
			i += 2
		case *types.Basic:
			if u.Kind() == types.String || u.Kind() == types.UnsafePointer {
				out = append(out, refComp{t, v.C[i]})
			}
			i += n
		case *types.Struct:
			for k := 0; k < u.NumFields(); k++ {
				walk(u.Field(k).Type())
			}
		default:
			i += n
		}
	}
	walk(v.T)
	return out
}

// mayAlias: can a reference found at static type a point to the object of a value of static type b?
// (Go's type system without unsafe: same pointer/map/chan type, slices and strings by element type,
// interfaces and unsafe pointers may hold anything.)
func mayAlias(a, b types.Type) bool {
	ua, ub := a.Underlying(), b.Underlying()
	if _, ok := ua.(*types.Interface); ok {
		return true
	}
	if _, ok := ub.(*types.Interface); ok {
		return true
	}
	if ba, ok := ua.(*types.Basic); ok && ba.Kind() == types.UnsafePointer {
		return true
	}
	elem := func(t types.Type) types.Type {
		switch u := t.(type) {
		case *types.Slice:
			return u.Elem()
		case *types.Basic:
			if u.Kind() == types.String {
				return types.Typ[types.Uint8]
			}
		}
		return nil
	}
	if ea, eb := elem(ua), elem(ub); ea != nil || eb != nil {
		return ea != nil && eb != nil && types.Identical(ea.Underlying(), eb.Underlying())
	}
	return types.Identical(ua, ub)
}

// spawnPre: the preconditions of a goroutine body that is verified under its own contract are proof
// obligations where it is spawned (captured variables and arguments have their values of that moment).
func (fr *Frame) spawnPre(st *State, x *ssa.Go, gargs []Val) {
	if fr.hookRoot() == nil || x.Call.IsInvoke() { // spawns in expanded callees count like the function's own
		return
	}
	var fn *ssa.Function
	var binds []Val
	if fv := fr.val(st, x.Call.Value); fv.K == KClosure {
		fn, binds = fv.Fn, fv.Binds
	} else if f := x.Call.StaticCallee(); f != nil {
		fn = f
	}
	if fn == nil {
		return
	}
	fr.spawnPreFn(st, fn, binds, gargs, x.Pos())
}

// spawnViaCall: a call of a function whose contract says "spawns <param>" (a goroutine pool's Go) with a
// closure for that parameter is a spawn of the closure: "go" hooks fire and the closure's preconditions are
// obligations here.
func (fr *Frame) spawnViaCall(st *State, fc *FuncContract, args []Val, pos token.Pos) {
	idx := -1
	for i, p := range fc.Params {
		if p == fc.Spawns {
			idx = i
		}
	}
	if idx < 0 || idx >= len(args) {
		panic(contractErr("spawns: no parameter " + fc.Spawns + " in " + fc.Key))
	}
	fv := args[idx]
	fr.top.goCaps = nil
	fr.top.goCapVars = map[string]bool{}
	if fv.K == KClosure {
		for _, v := range fv.Fn.FreeVars {
			fr.top.goCapVars[v.Name()] = true
		}
		for _, b := range fv.Binds {
			if b.K == KCellPtr {
				if cv, ok := st.cells[b.Cell]; ok {
					fr.top.goCaps = append(fr.top.goCaps, fr.refComps(cv)...)
				}
			} else {
				fr.top.goCaps = append(fr.top.goCaps, fr.refComps(b)...)
			}
		}
	}
	fr.callHooks(st, "go", nil, pos)
	if fv.K != KClosure {
		fr.oblige(st, "spawn-pre", shortKey(fc.Key)+".known-function", False, &Clause{Kind: "spawn-pre", Text: "the function handed to " + shortKey(fc.Key) + " is a closure or function whose contract can be checked here"}, pos)
		return
	}
	if fr.hookRoot() != nil {
		fr.spawnPreFn(st, fv.Fn, fv.Binds, nil, pos)
	}
	fr.top.note("spawn of " + fv.Fn.Name() + " through " + shortKey(fc.Key) + " in " + fr.fn.Name() + ": goroutine body not executed in the spawner; concurrent effects not modelled")
}

func (fr *Frame) spawnPreFn(st *State, fn *ssa.Function, binds []Val, gargs []Val, pos token.Pos) {
	fc := fr.en.CS.Funcs[FuncKey(fn)]
	if fc == nil || len(fc.Requires) == 0 {
		return
	}
	sc := &Scope{fr: fr, st: st, vars: map[string]Val{}, entry: map[string]Val{}, pkg: fr.pkg}
	for i, fv := range fn.FreeVars {
		if i >= len(binds) {
			break
		}
		b := binds[i]
		if b.K == KCellPtr {
			if cv, ok := st.cells[b.Cell]; ok {
				sc.vars[fv.Name()] = cv
			}
		} else if b.K == KNormal {
			// captured struct/array local: its reference
			nv := b
			nv.Nav = true
			sc.vars[fv.Name()] = nv
		}
	}
	for i, p := range fn.Params {
		if i < len(gargs) {
			name := p.Name()
			if !fc.IsClosure && i < len(fc.Params) {
				name = fc.Params[i]
			}
			sc.vars[name] = gargs[i]
		}
	}
	for i, r := range fc.Requires {
		g := func() (g Term) {
			// a precondition that can no longer be stated here (it names a variable the goroutine
			// no longer captures) is an obligation that fails, not a tool error
			defer func() {
				if e := recover(); e != nil {
					if _, ok := e.(contractErr); ok {
						g = False
						return
					}
					panic(e)
				}
			}()
			return fr.evalBool(sc, r.E)
		}()
		fr.oblige(st, "spawn-pre", shortKey(fc.Key)+"."+clauseName(r, i), g, r, pos)
	}
}
