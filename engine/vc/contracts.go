package vc

import (
	"bufio"
	"fmt"
	"go/ast"
	"go/parser"
	"go/token"
	"os"
	"path/filepath"
	"regexp"
	"sort"
	"strconv"
	"strings"
)

type Clause struct {
	Kind  string // requires, ensures, invariant, assert, ...
	Text  string
	E     Expr
	Props []string // property tags
	Label string
	File  string
	Line  int
}

type ModTarget struct {
	Text string
	E    Expr // EIdent/ESel (field), ESlice (range of slice), EIndex
	All  bool // "modifies *"
}

type LoopSpec struct {
	Ordinal    int
	Invariants []*Clause
	Decreases  []Expr
	DecText    string
	Modifies   []ModTarget
	HasMod     bool
	Unroll     int
}

type FuncContract struct {
	Key      string // pkgpath.[Recv.]Name
	PkgPath  string
	Recv     string
	Name     string
	Header   string
	Params   []string // contract names for parameters (receiver first when method)
	Results  []string
	Props    []string
	Requires []*Clause
	Ensures  []*Clause
	Modifies []ModTarget
	HasMod   bool
	Loops    map[int]*LoopSpec
	Inline   bool // callers execute the body
	Trusted  bool // contract is assumed; body not verified
	Pure     bool // no heap effect (shorthand for empty modifies)
	External bool // from /verif/specs/ext
	NoTerm   bool // termination not claimed
	Asserts  []*Clause
	OptHooks  map[string]bool // callsite X?: hooks that may match no call
	DynPure   []string // dyncall <name>: modifies nothing
	CallSites map[string][]*Clause // callee short name -> assertions evaluated at every call to it
	Ghosts    []*GhostVar
	Spawns    string // "spawns <param>": calling the function starts a goroutine running that func() argument
	Calls     string // "calls <param>": the function may call that func() argument (its contract's preconditions are obligations at the call)
	GhostUps  []*GhostUpdate
	IsClosure bool    // contract of a function literal (key parent$n)
	IsLemma  bool     // a lemma over spec expressions: parameters are universally quantified, no code
	PTypes   []string // lemma parameter types (Go syntax)
	File     string
	Line     int
	Used     bool
}

// GhostVar: "ghost name type = init"
type GhostVar struct {
	Name string
	Type string
	Init Expr
}

// GhostUpdate: "onassign <local> [in loop N]: name = expr" — executed right after every
// assignment to the named local variable (inside loop N when given).
type GhostUpdate struct {
	OnCall string // "oncall <callee>: name = expr": executed at every call of callee (before its effect)
	After  bool   // "aftercall <callee>: name = expr": executed after the call; results are ret0, ret1, ...
	Local string
	Loop  int
	Name  string
	E     Expr
	Text  string
	Optional bool // the hook may match no call
	Mark bool // markcall: E is an attr mark executed at the call
	Assume bool // assumecall: E is assumed after the call instead of assigned
}

type SpecFunc struct {
	PkgPath string
	Name   string
	Params []string
	PTypes []string
	RType  string
	Body   Expr // nil => uninterpreted
}

type Axiom struct {
	PkgPath string
	Text    string
	E       Expr
	File    string
	Line    int
}

type Contracts struct {
	Funcs   map[string]*FuncContract
	Specs   map[string]*SpecFunc
	Axioms  []*Axiom
	ChanInvs []*ChanInv
	TypeInvs []*ChanInv // typeinv <named type>: expr(v), assumed of every value of the type seen outside its package
	Attrs    map[string]bool // ghost object attributes: name -> false for every object on entry
	Assumes []string // textual record of every 'trusted'/'assume'
}

func NewContracts() *Contracts {
	return &Contracts{Funcs: map[string]*FuncContract{}, Specs: map[string]*SpecFunc{}}
}

var tagRe = regexp.MustCompile(`^\[([A-Za-z0-9_, ]+)(?::([A-Za-z0-9_\-\.]+))?\]\s*`)

var keywords = map[string]bool{
	"func": true, "props": true, "requires": true, "ensures": true, "modifies": true,
	"loop": true, "invariant": true, "decreases": true, "inline": true, "trusted": true,
	"pure": true, "unroll": true, "spec": true, "package": true, "noterm": true, "assert": true, "axiom": true, "lemma": true, "callsite": true, "ghost": true, "onassign": true, "oncall": true, "aftercall": true, "closure": true, "chaninv": true, "typeinv": true, "spawns": true, "calls": true, "assumecall": true, "markcall": true, "dyncall": true, "attr": true,
}

// LoadFile parses a contract file. pkgPath is the default package path
// (for files that live inside a /repo package); spec files may switch with
// a "package <path>" line.
func (cs *Contracts) LoadFile(path string, pkgPath string, external bool) error {
	f, err := os.Open(path)
	if err != nil {
		return err
	}
	defer f.Close()
	type rawLine struct {
		text string
		line int
	}
	var lines []rawLine
	sc := bufio.NewScanner(f)
	sc.Buffer(make([]byte, 1<<20), 1<<20)
	ln := 0
	for sc.Scan() {
		ln++
		t := strings.TrimSpace(sc.Text())
		if !strings.HasPrefix(t, "//@") {
			continue
		}
		t = strings.TrimSpace(t[3:])
		if t == "" || strings.HasPrefix(t, "--") {
			continue
		}
		// strip trailing "-- comment"
		if i := strings.Index(t, " -- "); i >= 0 {
			t = strings.TrimSpace(t[:i])
		}
		lines = append(lines, rawLine{t, ln})
	}
	// join continuation lines
	var joined []rawLine
	for _, l := range lines {
		w := firstWord(l.text)
		if !keywords[w] && len(joined) > 0 {
			joined[len(joined)-1].text += " " + l.text
			continue
		}
		joined = append(joined, l)
	}
	var cur *FuncContract
	var curLoop *LoopSpec
	for _, l := range joined {
		w := firstWord(l.text)
		rest := strings.TrimSpace(l.text[len(w):])
		errf := func(f string, a ...any) error {
			return fmt.Errorf("%s:%d: %s", path, l.line, fmt.Sprintf(f, a...))
		}
		switch w {
		case "package":
			pkgPath = rest
			cur, curLoop = nil, nil
		case "closure":
			// closure [Recv.]name$n : the n-th function literal of a function; no parameters,
			// captured variables are visible under their own names
			name := strings.TrimSpace(rest)
			fc := &FuncContract{PkgPath: pkgPath, Name: name, Header: l.text, Loops: map[int]*LoopSpec{}, IsClosure: true,
				Key: pkgPath + "." + name, File: path, Line: l.line}
			if _, dup := cs.Funcs[fc.Key]; dup {
				return errf("duplicate contract for %s", fc.Key)
			}
			cs.Funcs[fc.Key] = fc
			cur, curLoop = fc, nil
		case "func", "lemma":
			hdr := l.text
			if w == "lemma" {
				hdr = "func " + strings.TrimSpace(l.text[len("lemma"):])
			}
			fc, err := parseHeader(hdr, pkgPath)
			if err != nil {
				return errf("%v", err)
			}
			if w == "lemma" {
				fc.IsLemma = true
				fc.Key = pkgPath + ".lemma:" + fc.Name
			}
			fc.File, fc.Line, fc.External = path, l.line, external
			if external {
				fc.Trusted = true
			}
			if _, dup := cs.Funcs[fc.Key]; dup {
				return errf("duplicate contract for %s", fc.Key)
			}
			cs.Funcs[fc.Key] = fc
			cur, curLoop = fc, nil
		case "axiom":
			e, err := ParseExpr(rest)
			if err != nil {
				return errf("%v", err)
			}
			cs.Axioms = append(cs.Axioms, &Axiom{PkgPath: pkgPath, Text: rest, E: e, File: path, Line: l.line})
			cur, curLoop = nil, nil
		case "attr":
			// attr <name> [initially-false]: a ghost boolean attribute of objects (attr(name, x) in contracts).
			// Fresh objects have it false; with "initially-false" every object has it false on entry.
			f := strings.Fields(rest)
			if len(f) == 0 {
				return errf("attr needs a name")
			}
			if cs.Attrs == nil {
				cs.Attrs = map[string]bool{}
			}
			cs.Attrs[f[0]] = len(f) > 1 && f[1] == "initially-false"
			cur, curLoop = nil, nil
		case "typeinv":
			// typeinv <named type of this package>: <expr over v>  -- representation invariant of a type whose
			// fields are unexported: assumed of every value of the type met outside the package
			ci := strings.Index(rest, ":")
			if ci < 0 {
				return errf("typeinv needs '<type>: <expr>'")
			}
			e, err := ParseExpr(strings.TrimSpace(rest[ci+1:]))
			if err != nil {
				return errf("%v", err)
			}
			cs.TypeInvs = append(cs.TypeInvs, &ChanInv{PkgPath: pkgPath, Elem: strings.TrimSpace(rest[:ci]), Text: rest, E: e})
			cur, curLoop = nil, nil
		case "chaninv":
			// chaninv <elem type>: <expr over v>  -- every value sent on a channel of this element
			// type inside this package satisfies expr (checked at sends, assumed at receives)
			ci := strings.Index(rest, ":")
			if ci < 0 {
				return errf("chaninv needs '<type>: <expr>'")
			}
			e, err := ParseExpr(strings.TrimSpace(rest[ci+1:]))
			if err != nil {
				return errf("%v", err)
			}
			cs.ChanInvs = append(cs.ChanInvs, &ChanInv{PkgPath: pkgPath, Elem: strings.TrimSpace(rest[:ci]), Text: rest, E: e})
			cur, curLoop = nil, nil
		case "spec":
			sf, err := parseSpec(rest)
			if err != nil {
				return errf("%v", err)
			}
			sf.PkgPath = pkgPath
			cs.Specs[sf.Name] = sf
		default:
			if cur == nil {
				return errf("clause outside func: %s", l.text)
			}
			switch w {
			case "props":
				cur.Props = append(cur.Props, strings.Fields(strings.ReplaceAll(rest, ",", " "))...)
			case "inline":
				cur.Inline = true
			case "trusted":
				cur.Trusted = true
			case "pure":
				cur.Pure = true
				cur.HasMod = true
			case "noterm":
				cur.NoTerm = true
			case "spawns":
				cur.Spawns = strings.TrimSpace(rest)
			case "calls":
				cur.Calls = strings.TrimSpace(rest)
			case "loop":
				n, err := strconv.Atoi(strings.TrimSuffix(strings.TrimSpace(rest), ":"))
				if err != nil {
					return errf("bad loop ordinal %q", rest)
				}
				curLoop = &LoopSpec{Ordinal: n}
				cur.Loops[n] = curLoop
			case "unroll":
				if curLoop == nil {
					return errf("unroll outside loop")
				}
				n, err := strconv.Atoi(rest)
				if err != nil {
					return errf("bad unroll count")
				}
				curLoop.Unroll = n
			case "requires", "ensures", "invariant", "assert":
				c := &Clause{Kind: w, File: path, Line: l.line}
				if m := tagRe.FindStringSubmatch(rest); m != nil {
					c.Props = strings.Fields(strings.ReplaceAll(m[1], ",", " "))
					c.Label = m[2]
					rest = rest[len(m[0]):]
				}
				c.Text = rest
				e, err := ParseExpr(rest)
				if err != nil {
					return errf("%v", err)
				}
				c.E = e
				switch w {
				case "requires":
					cur.Requires = append(cur.Requires, c)
					curLoop = nil
				case "ensures":
					cur.Ensures = append(cur.Ensures, c)
					curLoop = nil
				case "assert":
					cur.Asserts = append(cur.Asserts, c)
				case "invariant":
					if curLoop == nil {
						return errf("invariant outside loop")
					}
					curLoop.Invariants = append(curLoop.Invariants, c)
				}
			case "ghost":
				// ghost name type = init
				fs := strings.SplitN(rest, "=", 2)
				hd := strings.Fields(fs[0])
				if len(hd) > 2 { // a type written with spaces (chan<- *T)
					hd = []string{hd[0], strings.Join(hd[1:], " ")}
				}
				if len(fs) != 2 || len(hd) != 2 {
					return errf("ghost needs 'name type = init'")
				}
				e, err := ParseExpr(strings.TrimSpace(fs[1]))
				if err != nil {
					return errf("%v", err)
				}
				cur.Ghosts = append(cur.Ghosts, &GhostVar{Name: hd[0], Type: hd[1], Init: e})
			case "onassign":
				// onassign local [in loop N]: name = expr
				i := strings.Index(rest, ":")
				if i < 0 {
					return errf("onassign needs '<local> [in loop N]: name = expr'")
				}
				hd := strings.Fields(rest[:i])
				gu := &GhostUpdate{Local: hd[0], Text: rest}
				if len(hd) == 4 && hd[1] == "in" && hd[2] == "loop" {
					n, err := strconv.Atoi(hd[3])
					if err != nil {
						return errf("bad loop ordinal")
					}
					gu.Loop = n
				} else if len(hd) != 1 {
					return errf("bad onassign header")
				}
				as := strings.SplitN(rest[i+1:], "=", 2)
				if len(as) != 2 {
					return errf("onassign needs an assignment")
				}
				gu.Name = strings.TrimSpace(as[0])
				e, err := ParseExpr(strings.TrimSpace(as[1]))
				if err != nil {
					return errf("%v", err)
				}
				gu.E = e
				cur.GhostUps = append(cur.GhostUps, gu)
			case "oncall", "aftercall":
				i := strings.Index(rest, ":")
				if i < 0 {
					return errf("oncall needs '<callee>: name = expr'")
				}
				gu := &GhostUpdate{OnCall: strings.TrimSpace(rest[:i]), Text: rest, After: w == "aftercall"}
				if strings.HasSuffix(gu.OnCall, "?") { // "oncall X?:" the function need not call X at all
					gu.OnCall, gu.Optional = strings.TrimSuffix(gu.OnCall, "?"), true
				}
				as := strings.SplitN(rest[i+1:], "=", 2)
				if len(as) != 2 {
					return errf("oncall needs an assignment")
				}
				gu.Name = strings.TrimSpace(as[0])
				e, err := ParseExpr(strings.TrimSpace(as[1]))
				if err != nil {
					return errf("%v", err)
				}
				gu.E = e
				cur.GhostUps = append(cur.GhostUps, gu)
			case "dyncall":
				// dyncall <name>: modifies nothing -- calls through the function value whose source expression ends
				// in <name> (a field or variable holding a callback) are assumed not to touch the modelled heap
				i := strings.Index(rest, ":")
				if i < 0 || strings.TrimSpace(rest[i+1:]) != "modifies nothing" {
					return errf("dyncall needs '<name>: modifies nothing'")
				}
				cur.DynPure = append(cur.DynPure, strings.TrimSpace(rest[:i]))
			case "markcall":
				// markcall <callee>: [cond ==>] [!]attr(name, x) -- a ghost attribute mark made when the function calls
				// <callee> ("go" for a goroutine spawn); the mark is part of this function's ghost effect
				i := strings.Index(rest, ":")
				if i < 0 {
					return errf("markcall needs '<callee>: attr(name, x)'")
				}
				e, err := ParseExpr(strings.TrimSpace(rest[i+1:]))
				if err != nil {
					return errf("%v", err)
				}
				cur.GhostUps = append(cur.GhostUps, &GhostUpdate{OnCall: strings.TrimSuffix(strings.TrimSpace(rest[:i]), "?"), Text: rest, Mark: true, Optional: strings.HasSuffix(strings.TrimSpace(rest[:i]), "?"), E: e})
			case "assumecall":
				// assumecall <callee>: <expr over argN / retN>  -- an assumption about what a dependency
				// returns, stated where it is used; listed with the trusted base in the evidence
				i := strings.Index(rest, ":")
				if i < 0 {
					return errf("assumecall needs '<callee>: <expr>'")
				}
				e, err := ParseExpr(strings.TrimSpace(rest[i+1:]))
				if err != nil {
					return errf("%v", err)
				}
				cur.GhostUps = append(cur.GhostUps, &GhostUpdate{OnCall: strings.TrimSuffix(strings.TrimSpace(rest[:i]), "?"), Text: rest, After: true, Assume: true, Optional: true, E: e})
			case "callsite":
				// callsite <callee>: <expr>   (arguments of the call are arg0, arg1, ...)
				i := strings.Index(rest, ":")
				if i < 0 {
					return errf("callsite needs '<callee>: <expr>'")
				}
				callee := strings.TrimSpace(rest[:i])
				if strings.HasSuffix(callee, "?") { // the function need not call it at all
					callee = strings.TrimSuffix(callee, "?")
					if cur.OptHooks == nil {
						cur.OptHooks = map[string]bool{}
					}
					cur.OptHooks[callee] = true
				}
				body := strings.TrimSpace(rest[i+1:])
				c := &Clause{Kind: "callsite", File: path, Line: l.line}
				if m := tagRe.FindStringSubmatch(body); m != nil {
					c.Props = strings.Fields(strings.ReplaceAll(m[1], ",", " "))
					c.Label = m[2]
					body = body[len(m[0]):]
				}
				c.Text = body
				e, err := ParseExpr(body)
				if err != nil {
					return errf("%v", err)
				}
				c.E = e
				if cur.CallSites == nil {
					cur.CallSites = map[string][]*Clause{}
				}
				cur.CallSites[callee] = append(cur.CallSites[callee], c)
			case "decreases":
				if curLoop == nil {
					return errf("decreases outside loop")
				}
				curLoop.DecText = rest
				for _, part := range splitTop(rest) {
					e, err := ParseExpr(part)
					if err != nil {
						return errf("%v", err)
					}
					curLoop.Decreases = append(curLoop.Decreases, e)
				}
			case "modifies":
				var mts []ModTarget
				for _, part := range splitTop(rest) {
					part = strings.TrimSpace(part)
					if part == "nothing" {
						continue
					}
					if part == "*" {
						mts = append(mts, ModTarget{Text: "*", All: true})
						continue
					}
					e, err := ParseExpr(part)
					if err != nil {
						return errf("%v", err)
					}
					mts = append(mts, ModTarget{Text: part, E: e})
				}
				if curLoop != nil {
					curLoop.Modifies = append(curLoop.Modifies, mts...)
					curLoop.HasMod = true
				} else {
					cur.Modifies = append(cur.Modifies, mts...)
					cur.HasMod = true
				}
			default:
				return errf("unknown clause %q", w)
			}
		}
	}
	return nil
}

func firstWord(s string) string {
	for i := 0; i < len(s); i++ {
		if s[i] == ' ' || s[i] == '\t' || s[i] == ':' {
			return s[:i]
		}
	}
	return s
}

// splitTop splits at top-level commas.
func splitTop(s string) []string {
	var out []string
	depth := 0
	last := 0
	for i := 0; i < len(s); i++ {
		switch s[i] {
		case '(', '[':
			depth++
		case ')', ']':
			depth--
		case ',':
			if depth == 0 {
				out = append(out, strings.TrimSpace(s[last:i]))
				last = i + 1
			}
		}
	}
	if strings.TrimSpace(s[last:]) != "" {
		out = append(out, strings.TrimSpace(s[last:]))
	}
	return out
}

func parseHeader(hdr string, pkgPath string) (*FuncContract, error) {
	src := "package p\n" + hdr + " {}\n"
	fset := token.NewFileSet()
	f, err := parser.ParseFile(fset, "hdr.go", src, 0)
	if err != nil {
		return nil, fmt.Errorf("bad func header %q: %v", hdr, err)
	}
	fd, ok := f.Decls[0].(*ast.FuncDecl)
	if !ok {
		return nil, fmt.Errorf("bad func header %q", hdr)
	}
	fc := &FuncContract{PkgPath: pkgPath, Name: fd.Name.Name, Header: hdr, Loops: map[int]*LoopSpec{}}
	if fd.Recv != nil && len(fd.Recv.List) == 1 {
		r := fd.Recv.List[0]
		fc.Recv = typeBaseName(r.Type)
		if len(r.Names) == 1 {
			fc.Params = append(fc.Params, r.Names[0].Name)
		} else {
			fc.Params = append(fc.Params, "_recv")
		}
	}
	n := 0
	for _, p := range fd.Type.Params.List {
		ts := src[fset.Position(p.Type.Pos()).Offset:fset.Position(p.Type.End()).Offset]
		if len(p.Names) == 0 {
			fc.Params = append(fc.Params, fmt.Sprintf("_p%d", n))
			fc.PTypes = append(fc.PTypes, ts)
			n++
		}
		for _, nm := range p.Names {
			fc.Params = append(fc.Params, nm.Name)
			fc.PTypes = append(fc.PTypes, ts)
			n++
		}
	}
	if fd.Type.Results != nil {
		n = 0
		for _, p := range fd.Type.Results.List {
			if len(p.Names) == 0 {
				fc.Results = append(fc.Results, fmt.Sprintf("ret%d", n))
				n++
			}
			for _, nm := range p.Names {
				fc.Results = append(fc.Results, nm.Name)
				n++
			}
		}
	}
	if fc.Recv != "" {
		fc.Key = pkgPath + "." + fc.Recv + "." + fc.Name
	} else {
		fc.Key = pkgPath + "." + fc.Name
	}
	return fc, nil
}

func typeBaseName(e ast.Expr) string {
	switch e := e.(type) {
	case *ast.StarExpr:
		return typeBaseName(e.X)
	case *ast.Ident:
		return e.Name
	case *ast.IndexExpr:
		return typeBaseName(e.X)
	case *ast.IndexListExpr:
		return typeBaseName(e.X)
	case *ast.ParenExpr:
		return typeBaseName(e.X)
	case *ast.SelectorExpr:
		return e.Sel.Name
	}
	return "?"
}

// spec func name(a T, b U) R = body      (body optional)
func parseSpec(rest string) (*SpecFunc, error) {
	rest = strings.TrimSpace(strings.TrimPrefix(strings.TrimSpace(rest), "func"))
	var body string
	if i := strings.Index(rest, " = "); i >= 0 {
		body = strings.TrimSpace(rest[i+3:])
		rest = strings.TrimSpace(rest[:i])
	}
	op := strings.Index(rest, "(")
	cl := strings.LastIndex(rest, ")")
	if op < 0 || cl < op {
		return nil, fmt.Errorf("bad spec func %q", rest)
	}
	sf := &SpecFunc{Name: strings.TrimSpace(rest[:op]), RType: strings.TrimSpace(rest[cl+1:])}
	for _, p := range splitTop(rest[op+1 : cl]) {
		fs := strings.Fields(p)
		if len(fs) != 2 {
			return nil, fmt.Errorf("bad spec param %q", p)
		}
		sf.Params = append(sf.Params, fs[0])
		sf.PTypes = append(sf.PTypes, fs[1])
	}
	if body != "" {
		e, err := ParseExpr(body)
		if err != nil {
			return nil, err
		}
		sf.Body = e
	}
	return sf, nil
}

// LoadRepoContracts finds contracts_verif.go files under the given package dirs.
func (cs *Contracts) LoadRepoContracts(pkgDirs map[string]string) error {
	var paths []string
	for p := range pkgDirs {
		paths = append(paths, p)
	}
	sort.Strings(paths)
	for _, pkgPath := range paths {
		dir := pkgDirs[pkgPath]
		ms, _ := filepath.Glob(filepath.Join(dir, "*_verif.go"))
		sort.Strings(ms)
		for _, m := range ms {
			if err := cs.LoadFile(m, pkgPath, false); err != nil {
				return err
			}
		}
	}
	return nil
}

func (cs *Contracts) LoadExtDir(dir string) error {
	ms, _ := filepath.Glob(filepath.Join(dir, "*.spec"))
	sort.Strings(ms)
	for _, m := range ms {
		if err := cs.LoadFile(m, "", true); err != nil {
			return err
		}
	}
	return nil
}

// ChanInv is a per-package channel invariant on an element type.
type ChanInv struct {
	PkgPath string
	Elem    string
	Text    string
	E       Expr
}
