package vc

import (
	"bytes"
	"context"
	"os"
	"os/exec"
	"path/filepath"
	"strings"
	"sync"
	"time"
)

type SolverCfg struct {
	Timeout  time.Duration
	WorkDir  string
	Parallel int
	Solvers  []string // subset of z3new, z3, cvc5
	Seed     int
	NoSecondWave bool
}

type solverRun struct {
	name   string
	answer string // unsat, sat, unknown, timeout, error
	out    string
	secs   float64
}

func solverCmd(ctx context.Context, name, file string, timeout time.Duration, seed int) *exec.Cmd {
	secs := int(timeout.Seconds())
	if secs < 1 {
		secs = 1
	}
	switch name {
	case "z3new":
		return exec.CommandContext(ctx, "z3-new", "-T:"+itoa(secs), "smt.random_seed="+itoa(seed), file)
	case "z3":
		return exec.CommandContext(ctx, "z3", "-T:"+itoa(secs), "smt.random_seed="+itoa(seed), file)
	case "cvc5":
		return exec.CommandContext(ctx, "cvc5", "--tlimit="+itoa(secs*1000), "--seed="+itoa(seed), file)
	case "z3new-nombqi":
		return exec.CommandContext(ctx, "z3-new", "-T:"+itoa(secs), "smt.mbqi=false", "smt.random_seed="+itoa(seed), file)
	case "z3-nombqi":
		return exec.CommandContext(ctx, "z3", "-T:"+itoa(secs), "smt.mbqi=false", "smt.random_seed="+itoa(seed), file)
	}
	return nil
}

func itoa(i int) string { return fmtInt(i) }

func fmtInt(i int) string {
	if i == 0 {
		return "0"
	}
	neg := i < 0
	if neg {
		i = -i
	}
	var b []byte
	for i > 0 {
		b = append([]byte{byte('0' + i%10)}, b...)
		i /= 10
	}
	if neg {
		b = append([]byte{'-'}, b...)
	}
	return string(b)
}

// raceSolvers runs the solvers concurrently and returns the first definitive answer.
func raceSolvers(file string, cfg SolverCfg) (best solverRun, all []solverRun) {
	ctx, cancel := context.WithTimeout(context.Background(), cfg.Timeout+2*time.Second)
	defer cancel()
	// second wave: pattern-only configurations (no model-based instantiation), started only
	// when the first wave has not answered quickly; their "sat" is not trusted (see below)
	solvers := append([]string{}, cfg.Solvers...)
	if !cfg.NoSecondWave {
		solvers = append(solvers, "z3-nombqi", "z3new-nombqi")
	}
	cfg.Solvers = solvers
	ch := make(chan solverRun, len(cfg.Solvers))
	done := make(chan struct{})
	defer close(done)
	for _, s := range cfg.Solvers {
		go func(name string) {
			if strings.HasSuffix(name, "-nombqi") {
				select {
				case <-time.After(1200 * time.Millisecond):
				case <-done:
					ch <- solverRun{name: name, answer: "skipped"}
					return
				}
			}
			t0 := time.Now()
			cmd := solverCmd(ctx, name, file, cfg.Timeout, cfg.Seed)
			var out bytes.Buffer
			cmd.Stdout = &out
			cmd.Stderr = &out
			_ = cmd.Run()
			r := solverRun{name: name, out: out.String(), secs: time.Since(t0).Seconds()}
			first := strings.TrimSpace(strings.SplitN(strings.TrimSpace(r.out), "\n", 2)[0])
			switch first {
			case "unsat", "sat", "unknown":
				r.answer = first
				if first == "sat" && strings.HasSuffix(name, "-nombqi") {
					r.answer = "unknown" // incomplete instantiation: a model claim is not reliable
				}
			case "timeout":
				r.answer = "timeout"
			default:
				if ctx.Err() != nil {
					r.answer = "timeout"
				} else {
					r.answer = "error"
				}
			}
			ch <- r
		}(s)
	}
	got := 0
	for got < len(cfg.Solvers) {
		r := <-ch
		got++
		all = append(all, r)
		if r.answer == "unsat" || r.answer == "sat" {
			if best.answer == "" || (best.answer != "unsat" && best.answer != "sat") {
				best = r
			}
			cancel()
			// drain the rest quickly
			go func(n int) {
				for i := 0; i < n; i++ {
					<-ch
				}
			}(len(cfg.Solvers) - got)
			return best, all
		}
		if r.answer != "skipped" && (best.answer == "" || best.answer == "error") {
			best = r
		}
	}
	return best, all
}

// Discharge solves all obligations in parallel.
func Discharge(obls []*Obligation, cfg SolverCfg) {
	_ = os.MkdirAll(cfg.WorkDir, 0o755)
	sem := make(chan struct{}, cfg.Parallel)
	var wg sync.WaitGroup
	for i, o := range obls {
		if o.Status == "trivial" {
			o.Status = "discharged"
			o.Solver = "trivial"
			continue
		}
		wg.Add(1)
		sem <- struct{}{}
		go func(i int, o *Obligation) {
			defer wg.Done()
			defer func() { <-sem }()
			file := filepath.Join(cfg.WorkDir, sanitizeFile(o.Name)+".smt2")
			if err := os.WriteFile(file, []byte(o.Script), 0o644); err != nil {
				o.Status, o.Output = "unknown", err.Error()
				return
			}
			best, all := raceSolvers(file, cfg)
			o.Solver = best.name
			o.Seconds = best.secs
			switch best.answer {
			case "unsat":
				o.Status = "discharged"
			case "sat":
				o.Status = "failed"
			default:
				o.Status = "unknown"
				var sb strings.Builder
				for _, r := range all {
					sb.WriteString(r.name + ": " + r.answer + " " + firstLine(r.out) + "; ")
				}
				o.Output = sb.String()
			}
		}(i, o)
	}
	wg.Wait()
}

func firstLine(s string) string {
	s = strings.TrimSpace(s)
	if i := strings.Index(s, "\n"); i >= 0 {
		s = s[:i]
	}
	if len(s) > 200 {
		s = s[:200]
	}
	return s
}

func sanitizeFile(s string) string {
	var b []byte
	for i := 0; i < len(s); i++ {
		c := s[i]
		if c >= 'a' && c <= 'z' || c >= 'A' && c <= 'Z' || c >= '0' && c <= '9' || c == '.' || c == '-' || c == '_' {
			b = append(b, c)
		} else {
			b = append(b, '_')
		}
	}
	if len(b) > 180 {
		b = b[:180]
	}
	return string(b)
}

// getModel re-runs the winning solver with (get-model).
func getModel(file, solver string, cfg SolverCfg) string {
	src, err := os.ReadFile(file)
	if err != nil {
		return ""
	}
	mfile := strings.TrimSuffix(file, ".smt2") + ".model.smt2"
	_ = os.WriteFile(mfile, append(src, []byte("(get-model)\n")...), 0o644)
	ctx, cancel := context.WithTimeout(context.Background(), cfg.Timeout+2*time.Second)
	defer cancel()
	cmd := solverCmd(ctx, solver, mfile, cfg.Timeout, cfg.Seed)
	var out bytes.Buffer
	cmd.Stdout = &out
	_ = cmd.Run()
	s := out.String()
	if len(s) > 200000 {
		s = s[:200000]
	}
	return s
}
