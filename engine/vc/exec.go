package vc

import (
	"fmt"
	"go/token"
	"go/types"
	"sort"
	"strings"

	"golang.org/x/tools/go/ssa"
)

// Obligation is one proof obligation.
type Obligation struct {
	Name       string            `json:"name"`
	Func       string            `json:"func"`
	Kind       string            `json:"kind"`
	Clause     string            `json:"clause,omitempty"`
	Props      []string          `json:"props,omitempty"`
	Pos        string            `json:"pos,omitempty"`
	Script     string            `json:"-"`
	Status     string            `json:"status"` // discharged, failed, unknown, trivial
	Solver     string            `json:"solver,omitempty"`
	Seconds    float64           `json:"seconds"`
	Model      string            `json:"model,omitempty"`
	Output     string            `json:"output,omitempty"`
	Bounded    int               `json:"bounded,omitempty"`
	Size       int               `json:"smt_bytes"`
	Inputs     map[string]string `json:"-"`
	Replay     *ReplayInfo       `json:"-"`
	ClauseExpr Expr              `json:"-"`
}

// Top holds what is shared by a top-level function verification and all the
// frames inlined into it.
type Top struct {
	en         *Engine
	ctx        *Ctx
	fnKey      string
	obls       []*Obligation
	names      map[string]int
	ncell      int
	cellT      map[int]types.Type
	notes      []string // unmodelled calls etc.
	noteSet    map[string]bool
	strObjs    map[string]Val
	usesDot    bool
	alloc0     Term
	props      []string
	inputs     map[string]string // name -> SMT term for model extraction
	entryHeaps map[string]Term
	heapSorts  map[string]string
	trusted    map[string]bool // external/trusted contracts used
	bounded    int
	constStrs  []Term
	closures   map[string]Val
	nbound     int
	hookSeen   map[string]bool // callee names that reached callHooks (to report hooks that match nothing)
	goCapVars  map[string]bool // names of the spawner's variables the function literal being spawned captures
	goCapStale map[string]bool // … of those, the ones declared OUTSIDE the innermost loop around the go statement
	hookCond   Term            // set while the hooks of a conditional event (a select's send case) run
	goCaps     []refComp       // reference components handed to the goroutine at the current go statement
	epochHeaps map[string]Term
	epochMerge map[int][]epochPart
	nepoch     int
	replay     *ReplayInfo
}

type epochPart struct {
	pc    Term
	epoch int
}

type deferred struct {
	guard Term
	call  *ssa.CallCommon
	args  []Val
	fnVal Val
	instr *ssa.Defer
	frame *Frame
}

// State is the symbolic state at a program point.
type State struct {
	pc     Term
	cells  map[int]Val
	heaps  map[string]Term
	alloc  Term
	defers []deferred
	ghost  map[string]Val
	epoch  int // 0: heaps not in the map are the entry heaps; else forgotten by havoc #epoch
	havocs int
	pfx    map[string]int // package name -> epoch of the last "pkgheaps" havoc
}

func (s *State) clone() *State {
	n := &State{pc: s.pc, alloc: s.alloc, epoch: s.epoch, havocs: s.havocs}
	n.cells = make(map[int]Val, len(s.cells))
	for k, v := range s.cells {
		n.cells[k] = v
	}
	n.heaps = make(map[string]Term, len(s.heaps))
	for k, v := range s.heaps {
		n.heaps[k] = v
	}
	n.defers = append([]deferred(nil), s.defers...)
	if s.pfx != nil {
		n.pfx = make(map[string]int, len(s.pfx))
		for k, v := range s.pfx {
			n.pfx[k] = v
		}
	}
	n.ghost = make(map[string]Val, len(s.ghost))
	for k, v := range s.ghost {
		n.ghost[k] = v
	}
	return n
}

// Frame is one activation (top-level or inlined).
type Frame struct {
	en         *Engine
	top        *Top
	ctx        *Ctx
	fn         *ssa.Function
	fc         *FuncContract
	regs       map[ssa.Value]Val
	cellOf     map[*ssa.Alloc]int
	depth      int
	inTypeInv  bool // evaluating a type invariant (no nested application)
	prefix     string
	entry      *State
	params     []Val
	binds      []Val // free variable bindings (closures)
	pkg        *types.Package
	localNames map[string][]*ssa.Alloc
	parent     *Frame
	loops      map[*ssa.BasicBlock]*loopInfo
	inl        string // "@callee@callee2" chain for inlined frames
	entryScope *Scope
}

func (t *Top) note(s string) {
	if !t.noteSet[s] {
		t.noteSet[s] = true
		t.notes = append(t.notes, s)
	}
}

// heap returns the current term of a heap, creating the entry constant lazily.
func (fr *Frame) heap(st *State, name, sort string) Term {
	if h, ok := st.heaps[name]; ok {
		return h
	}
	if strings.HasPrefix(name, "R:") {
		// ghost attribute heaps are never forgotten by a havoc: only explicit marks change them
		return fr.attrEntryHeap(name)
	}
	ep := st.epoch
	for p, e := range st.pfx {
		if e > ep && heapOfPkg(name, p) {
			ep = e
		}
	}
	return fr.epochHeap(ep, name, sort)
}

// epochHeap: the content of a heap that has not been touched since havoc/merge #epoch.
func (fr *Frame) epochHeap(epoch int, name, sort string) Term {
	if epoch == 0 {
		return fr.top.entryHeap(name, sort)
	}
	k := fmt.Sprintf("%d:%s", epoch, name)
	if h, ok := fr.top.epochHeaps[k]; ok {
		return h
	}
	fr.top.heapSorts[name] = sort
	var h Term
	if parts, ok := fr.top.epochMerge[epoch]; ok {
		// a merge point: the heap is whatever it was on the incoming path
		h = fr.epochHeap(parts[len(parts)-1].epoch, name, sort)
		for i := len(parts) - 2; i >= 0; i-- {
			h = Ite(parts[i].pc, fr.epochHeap(parts[i].epoch, name, sort), h)
		}
		h = fr.ctx.Def(fmt.Sprintf("Hm%d:%s", epoch, name), h)
	} else {
		h = fr.ctx.Const(fmt.Sprintf("He%d:%s", epoch, name), sort)
	}
	fr.top.epochHeaps[k] = h
	return h
}

func (t *Top) entryHeap(name, sort string) Term {
	if h, ok := t.entryHeaps[name]; ok {
		return h
	}
	h := t.ctx.Const("H0:"+name, sort)
	t.entryHeaps[name] = h
	t.heapSorts[name] = sort
	return h
}

func (fr *Frame) setHeap(st *State, name string, v Term) {
	fr.top.heapSorts[name] = v.Sort
	st.heaps[name] = fr.ctx.Def("H:"+name, v)
}

// oblige records a proof obligation: pc => goal.
func (fr *Frame) oblige(st *State, kind, detail string, goal Term, clause *Clause, pos token.Pos) {
	top := fr.top
	base := top.fnKey + "#" + kind
	if detail != "" {
		base += ":" + detail
	}
	base += fr.inl
	top.names[base]++
	name := base
	if n := top.names[base]; n > 1 {
		name = fmt.Sprintf("%s#%d", base, n)
	}
	o := &Obligation{Name: name, Func: top.fnKey, Kind: kind}
	if clause != nil {
		o.Clause = clause.Text
		o.Props = clause.Props
		o.ClauseExpr = clause.E
	}
	o.Replay = top.replay
	if len(o.Props) == 0 {
		o.Props = top.props
	}
	if pos.IsValid() {
		p := fr.en.Fset.Position(pos)
		o.Pos = fmt.Sprintf("%s:%d", shortPath(p.Filename), p.Line)
	}
	o.Bounded = top.bounded
	g := Implies(st.pc, goal)
	if g.S == "true" {
		o.Status = "trivial"
	} else {
		o.Script = top.ctx.Script(top.ctx.Mark(), g, name)
		o.Size = len(o.Script)
	}
	top.obls = append(top.obls, o)
}

func shortPath(p string) string {
	if i := strings.Index(p, "/repo/"); i >= 0 {
		return p[i+6:]
	}
	return p
}

// assume adds a path-guarded assumption.
func (fr *Frame) assume(st *State, t Term) {
	fr.ctx.Assume(Implies(st.pc, t))
}

// ---------------------------------------------------------------------------
// loops

type loopInfo struct {
	header  *ssa.BasicBlock
	blocks  map[*ssa.BasicBlock]bool
	ordinal int
	spec    *LoopSpec
	// auto range-index facts
	rangeCell *ssa.Alloc
	rangeLim  ssa.Value
	mapRange  bool // the header advances a map iterator (range over a map)
}

func findLoops(fn *ssa.Function) map[*ssa.BasicBlock]*loopInfo {
	loops := map[*ssa.BasicBlock]*loopInfo{}
	for _, b := range fn.Blocks {
		for _, s := range b.Succs {
			if s.Dominates(b) { // back edge b -> s
				li := loops[s]
				if li == nil {
					li = &loopInfo{header: s, blocks: map[*ssa.BasicBlock]bool{s: true}}
					loops[s] = li
				}
				// natural loop: all nodes reaching b without passing s
				var stack []*ssa.BasicBlock
				if !li.blocks[b] {
					li.blocks[b] = true
					stack = append(stack, b)
				}
				for len(stack) > 0 {
					x := stack[len(stack)-1]
					stack = stack[:len(stack)-1]
					for _, p := range x.Preds {
						if !li.blocks[p] {
							li.blocks[p] = true
							stack = append(stack, p)
						}
					}
				}
			}
		}
	}
	var hs []*ssa.BasicBlock
	for h := range loops {
		hs = append(hs, h)
	}
	sort.Slice(hs, func(i, j int) bool { return hs[i].Index < hs[j].Index })
	for i, h := range hs {
		loops[h].ordinal = i + 1
		li := loops[h]
		for _, in := range h.Instrs {
			if nx, ok := in.(*ssa.Next); ok && !nx.IsString {
				li.mapRange = true
			}
		}
		if h.Comment == "rangeindex.loop" {
			// pattern: t = *cell; t2 = t + 1; *cell = t2; c = t2 < lim; if c
			for _, in := range h.Instrs {
				if st, ok := in.(*ssa.Store); ok {
					if a, ok := st.Addr.(*ssa.Alloc); ok {
						li.rangeCell = a
					}
				}
				if bo, ok := in.(*ssa.BinOp); ok && bo.Op == token.LSS {
					li.rangeLim = bo.Y
				}
			}
		}
	}
	return loops
}

// reverse postorder over forward edges
func rpo(fn *ssa.Function) []*ssa.BasicBlock {
	seen := map[*ssa.BasicBlock]bool{}
	var order []*ssa.BasicBlock
	var dfs func(b *ssa.BasicBlock)
	dfs = func(b *ssa.BasicBlock) {
		seen[b] = true
		for _, s := range b.Succs {
			if !seen[s] && !s.Dominates(b) {
				dfs(s)
			}
		}
		order = append(order, b)
	}
	dfs(fn.Blocks[0])
	for i, j := 0, len(order)-1; i < j; i, j = i+1, j-1 {
		order[i], order[j] = order[j], order[i]
	}
	return order
}

type retPoint struct {
	st   *State
	vals []Val
}

// mergeStates merges mutually exclusive states.
func (fr *Frame) mergeStates(sts []*State) *State {
	if len(sts) == 1 {
		return sts[0]
	}
	out := &State{cells: map[int]Val{}, heaps: map[string]Term{}, ghost: map[string]Val{}}
	var pcs []Term
	for _, s := range sts {
		pcs = append(pcs, s.pc)
	}
	out.pc = fr.ctx.Def("pc", Or(pcs...))
	out.epoch = sts[0].epoch
	epochsDiffer := false
	for _, s := range sts[1:] {
		if s.epoch != out.epoch {
			// different havoc histories: every heap known so far is merged explicitly below;
			// heaps nobody has looked at yet start a new epoch
			fr.top.nepoch++
			out.epoch = fr.top.nepoch
			epochsDiffer = true
			var parts []epochPart
			for _, s2 := range sts {
				parts = append(parts, epochPart{s2.pc, s2.epoch})
			}
			fr.top.epochMerge[out.epoch] = parts
			break
		}
	}
	// package-heap havocs: where the incoming paths disagree about a package's heaps, the merged
	// state gets a new epoch for that package whose heaps are the per-path ones (defined lazily
	// in epochHeap from the recorded parts)
	effEpoch := func(s *State, p string) int {
		ep := s.epoch
		if e, ok := s.pfx[p]; ok && e > ep {
			ep = e
		}
		return ep
	}
	pkgs := map[string]bool{}
	for _, s := range sts {
		for p := range s.pfx {
			pkgs[p] = true
		}
	}
	var pnames []string
	for p := range pkgs {
		pnames = append(pnames, p)
	}
	sort.Strings(pnames)
	for _, p := range pnames {
		same := true
		first := effEpoch(sts[0], p)
		for _, s := range sts[1:] {
			if effEpoch(s, p) != first {
				same = false
			}
		}
		if out.pfx == nil {
			out.pfx = map[string]int{}
		}
		if same && !epochsDiffer {
			if first > out.epoch {
				out.pfx[p] = first
			}
			continue
		}
		fr.top.nepoch++
		var parts []epochPart
		for _, s := range sts {
			parts = append(parts, epochPart{s.pc, effEpoch(s, p)})
		}
		fr.top.epochMerge[fr.top.nepoch] = parts
		out.pfx[p] = fr.top.nepoch
	}
	// cells
	keys := map[int]bool{}
	for _, s := range sts {
		for k := range s.cells {
			keys[k] = true
		}
	}
	for k := range keys {
		var cur Val
		have := false
		for i := len(sts) - 1; i >= 0; i-- {
			v, ok := sts[i].cells[k]
			if !ok {
				continue
			}
			if !have {
				cur, have = v, true
				continue
			}
			m, ok := iteVal(sts[i].pc, v, cur)
			if !ok {
				// incompatible pointer kinds: drop the cell (reads will fail as unsupported)
				have = false
				break
			}
			cur = m
		}
		if have {
			if cur.K == KNormal {
				nc := make([]Term, len(cur.C))
				for i := range cur.C {
					nc[i] = fr.ctx.Def("m", cur.C[i])
				}
				cur.C = nc
				if cur.Alt.S != "" {
					cur.Alt = fr.ctx.Def("ma", cur.Alt)
				}
			}
			out.cells[k] = cur
		}
	}
	// heaps
	hk := map[string]bool{}
	for _, s := range sts {
		for k := range s.heaps {
			hk[k] = true
		}
	}
	_ = epochsDiffer
	for k := range hk {
		sortOf := fr.top.heapSorts[k]
		cur := fr.heap(sts[len(sts)-1], k, sortOf)
		for i := len(sts) - 2; i >= 0; i-- {
			cur = Ite(sts[i].pc, fr.heap(sts[i], k, sortOf), cur)
		}
		out.heaps[k] = fr.ctx.Def("H:"+k, cur)
	}
	// ghost
	gk := map[string]bool{}
	for _, s := range sts {
		for k := range s.ghost {
			gk[k] = true
		}
	}
	for k := range gk {
		var cur Val
		have := false
		for i := len(sts) - 1; i >= 0; i-- {
			v, ok := sts[i].ghost[k]
			if !ok {
				continue
			}
			if !have {
				cur, have = v, true
				continue
			}
			if m, ok := iteVal(sts[i].pc, v, cur); ok {
				cur = m
			}
		}
		if have {
			out.ghost[k] = cur
		}
	}
	// alloc
	cur := sts[len(sts)-1].alloc
	for i := len(sts) - 2; i >= 0; i-- {
		cur = Ite(sts[i].pc, sts[i].alloc, cur)
	}
	out.alloc = fr.ctx.Def("alloc", cur)
	// defers: union by instruction
	seen := map[*ssa.Defer]bool{}
	for _, s := range sts {
		for _, d := range s.defers {
			if !seen[d.instr] {
				seen[d.instr] = true
				out.defers = append(out.defers, d)
			}
		}
	}
	return out
}

// execBody symbolically executes fn's body from st0 and returns the merged
// return state and results (nil state if no return is reachable).
func (fr *Frame) execBody(st0 *State) (*State, []Val) {
	fn := fr.fn
	if len(fn.Blocks) == 0 {
		panic(unsupported("function without body: " + fn.String()))
	}
	loops := findLoops(fn)
	fr.loops = loops
	for _, li := range loops {
		if fr.fc != nil {
			li.spec = fr.fc.Loops[li.ordinal]
		}
	}
	if fr.fc != nil {
		for n := range fr.fc.Loops {
			if n < 1 || n > len(loops) {
				// nothing to check for a loop that is not there; what the invariant was needed for
				// shows up in the obligations after it
				fr.top.note(fmt.Sprintf("%s: contract names loop %d but function has %d loops: loop clause ignored", shortKey(fr.fc.Key), n, len(loops)))
			}
		}
	}
	order := rpo(fn)
	in := map[*ssa.BasicBlock][]*State{}
	inFrom := map[*ssa.BasicBlock][]*ssa.BasicBlock{}
	in[fn.Blocks[0]] = []*State{st0}
	inFrom[fn.Blocks[0]] = []*ssa.BasicBlock{nil}
	var rets []retPoint
	type loopCtx struct {
		run *loopRun
		li  *loopInfo
	}
	lctx := map[*ssa.BasicBlock]*loopCtx{}

	for _, b := range order {
		ins := in[b]
		if len(ins) == 0 {
			continue
		}
		// phi nodes (e.g. from && and ||): select by incoming edge
		type phiVal struct {
			p *ssa.Phi
			v Val
		}
		var phis []phiVal
		for _, instr := range b.Instrs {
			p, ok := instr.(*ssa.Phi)
			if !ok {
				break
			}
			var cur Val
			have := false
			for i := len(ins) - 1; i >= 0; i-- {
				from := inFrom[b][i]
				idx := -1
				for k, pr := range b.Preds {
					if pr == from {
						idx = k
					}
				}
				if idx < 0 {
					panic(unsupported("phi without matching predecessor"))
				}
				v := fr.val(ins[i], p.Edges[idx])
				if !have {
					cur, have = v, true
					continue
				}
				m, ok := iteVal(ins[i].pc, v, cur)
				if !ok {
					panic(unsupported("phi of incompatible values"))
				}
				cur = m
			}
			phis = append(phis, phiVal{p, cur})
		}
		st := fr.mergeStates(ins)
		if st.pc.S == "false" {
			continue
		}
		for _, pv := range phis {
			fr.setReg(pv.p, pv.v)
		}
		if li := loops[b]; li != nil {
			lc := &loopCtx{li: li, run: &loopRun{}}
			lctx[b] = lc
			st = fr.enterLoop(st, li, lc.run)
		}
		// instructions
		var term ssa.Instruction
		dead := false
		for _, instr := range b.Instrs {
			switch instr.(type) {
			case *ssa.If, *ssa.Jump, *ssa.Return, *ssa.Panic:
				term = instr
			case *ssa.Phi:
				// handled above
			default:
				fr.execInstr(st, instr)
				if st.pc.S == "false" {
					dead = true
				}
			}
			if term != nil || dead {
				break
			}
		}
		if dead {
			continue
		}
		edge := func(to *ssa.BasicBlock, s *State) {
			if s.pc.S == "false" {
				return
			}
			if to.Dominates(b) { // back edge
				lc := lctx[to]
				if lc == nil {
					panic(unsupported("irreducible control flow"))
				}
				fr.backEdge(s, lc.li, lc.run, b)
				return
			}
			in[to] = append(in[to], s)
			inFrom[to] = append(inFrom[to], b)
		}
		switch t := term.(type) {
		case *ssa.Jump:
			edge(b.Succs[0], st)
		case *ssa.If:
			c := fr.val(st, t.Cond).Term()
			c = fr.ctx.Def("c", c)
			s1 := st.clone()
			s1.pc = fr.ctx.Def("pc", And(st.pc, c))
			s2 := st
			s2.pc = fr.ctx.Def("pc", And(st.pc, Not(c)))
			edge(b.Succs[0], s1)
			edge(b.Succs[1], s2)
		case *ssa.Return:
			var vals []Val
			for _, r := range t.Results {
				vals = append(vals, fr.val(st, r))
			}
			rets = append(rets, retPoint{st, vals})
		case *ssa.Panic:
			fr.oblige(st, "panic", fr.describe(t.X), False, nil, t.Pos())
		case nil:
			panic(unsupported("block without terminator"))
		}
	}
	if len(rets) == 0 {
		return nil, nil
	}
	if len(rets) == 1 {
		return rets[0].st, rets[0].vals
	}
	var sts []*State
	for _, r := range rets {
		sts = append(sts, r.st)
	}
	merged := fr.mergeStates(sts)
	nres := len(rets[0].vals)
	vals := make([]Val, nres)
	for k := 0; k < nres; k++ {
		cur := rets[len(rets)-1].vals[k]
		for i := len(rets) - 2; i >= 0; i-- {
			m, ok := iteVal(rets[i].st.pc, rets[i].vals[k], cur)
			if !ok && (rets[i].vals[k].K == KClosure || cur.K == KClosure) {
				// different function literals (or one and nil) returned on different paths: opaque references
				m, ok = iteVal(rets[i].st.pc, fr.opaque(merged, rets[i].vals[k]), fr.opaque(merged, cur))
			}
			if !ok {
				panic(unsupported("cannot merge return values"))
			}
			cur = m
		}
		for i := range cur.C {
			cur.C[i] = fr.ctx.Def("r", cur.C[i])
		}
		vals[k] = cur
	}
	return merged, vals
}

type loopRun struct {
	hdr      *State
	dec0     []Val
	preHeaps map[string]Term
	targets  []resolvedTarget
}

type contractErr string

// cellsAssignedIn returns the local cells stored to inside the loop.
func (fr *Frame) cellsAssignedIn(li *loopInfo) []*ssa.Alloc {
	seen := map[*ssa.Alloc]bool{}
	var out []*ssa.Alloc
	for b := range li.blocks {
		for _, in := range b.Instrs {
			if s, ok := in.(*ssa.Store); ok {
				if a, ok := s.Addr.(*ssa.Alloc); ok && !seen[a] {
					seen[a] = true
					out = append(out, a)
				}
			}
		}
	}
	// a local that a function literal captures AND assigns is assigned by every call in the loop that may run
	// that literal (it is called directly, handed to a callee, or was stored somewhere earlier): such locals are
	// forgotten at every loop that calls anything at all
	hasCall := false
	for b := range li.blocks {
		for _, in := range b.Instrs {
			if _, ok := in.(ssa.CallInstruction); ok {
				hasCall = true
			}
		}
	}
	if hasCall {
		for _, a := range capturedAssigned(fr.fn) {
			if !seen[a] {
				seen[a] = true
				out = append(out, a)
			}
		}
	}
	sort.Slice(out, func(i, j int) bool {
		return out[i].Pos() < out[j].Pos() || (out[i].Pos() == out[j].Pos() && out[i].Name() < out[j].Name())
	})
	return out
}

var capturedAssignedCache = map[*ssa.Function][]*ssa.Alloc{}

// capturedAssigned returns the locals of fn that some function literal made in fn captures and stores to
// (directly or in a literal nested in it).
func capturedAssigned(fn *ssa.Function) []*ssa.Alloc {
	if r, ok := capturedAssignedCache[fn]; ok {
		return r
	}
	var out []*ssa.Alloc
	seen := map[*ssa.Alloc]bool{}
	for _, b := range fn.Blocks {
		for _, in := range b.Instrs {
			mc, ok := in.(*ssa.MakeClosure)
			if !ok {
				continue
			}
			lit, ok := mc.Fn.(*ssa.Function)
			if !ok {
				continue
			}
			for i, bv := range mc.Bindings {
				a, ok := bv.(*ssa.Alloc)
				if !ok || seen[a] || i >= len(lit.FreeVars) {
					continue
				}
				if storesFreeVar(lit, lit.FreeVars[i], 0) {
					seen[a] = true
					out = append(out, a)
				}
			}
		}
	}
	capturedAssignedCache[fn] = out
	return out
}

func storesFreeVar(lit *ssa.Function, fv *ssa.FreeVar, depth int) bool {
	if depth > 8 {
		return true
	}
	for _, b := range lit.Blocks {
		for _, in := range b.Instrs {
			switch x := in.(type) {
			case *ssa.Store:
				if x.Addr == ssa.Value(fv) {
					return true
				}
			case *ssa.MakeClosure:
				inner, ok := x.Fn.(*ssa.Function)
				if !ok {
					continue
				}
				for i, bv := range x.Bindings {
					if bv == ssa.Value(fv) && i < len(inner.FreeVars) && storesFreeVar(inner, inner.FreeVars[i], depth+1) {
						return true
					}
				}
			}
		}
	}
	return false
}

func (fr *Frame) enterLoop(st *State, li *loopInfo, run *loopRun) *State {
	// a range loop over a collection of constant length 0 never runs its body
	if li.rangeCell != nil && li.rangeLim != nil && li.spec == nil {
		if lim := fr.val(st, li.rangeLim); lim.K == KNormal && len(lim.C) == 1 && lim.C[0].S == "0" {
			run.hdr = st.clone()
			return st
		}
	}
	spec := li.spec
	pos := token.NoPos
	if len(li.header.Instrs) > 0 {
		pos = li.header.Instrs[0].Pos()
	}
	lname := fmt.Sprintf("loop%d", li.ordinal)
	loopAlloc := st.alloc
	// 1. invariant on entry
	if spec != nil {
		sc := fr.loopScope(st, loopAlloc, st)
		for i, inv := range spec.Invariants {
			g, _ := fr.tryEvalBool(sc, inv.E, "loop invariant "+lname+"."+clauseName(inv, i))
			fr.oblige(st, "inv-entry", lname+"."+clauseName(inv, i), g, inv, pos)
		}
	}
	run.hdr = st.clone()
	// 2. havoc
	nst := st.clone()
	for _, a := range fr.cellsAssignedIn(li) {
		id, ok := fr.cellOf[a]
		if !ok {
			continue // declared inside the loop
		}
		old, ok := nst.cells[id]
		if !ok || old.K != KNormal {
			continue
		}
		nv := fr.fresh("lp_"+allocName(a), old.T)
		nst.cells[id] = nv
		fr.assumeWF(nst, nv)
	}
	if fr.parent == nil && fr.fc != nil {
		for _, gu := range fr.fc.GhostUps {
			if gu.OnCall != "" {
				// a ghost updated at calls of X is forgotten at every loop that calls X directly
				if fr.loopCalls(li, gu.OnCall) {
					if old, ok := nst.ghost[gu.Name]; ok && old.K == KNormal {
						nv := fr.fresh("gh_"+gu.Name, old.T)
						fr.assumeWF(nst, nv)
						nst.ghost[gu.Name] = nv
					}
				}
				continue
			}
			assignedHere := false
			for _, a := range fr.cellsAssignedIn(li) {
				if a.Comment == gu.Local {
					assignedHere = true
				}
			}
			if !assignedHere || (gu.Loop != 0 && gu.Loop != li.ordinal && !fr.loopNested(gu.Loop, li)) {
				continue
			}
			if old, ok := nst.ghost[gu.Name]; ok && old.K == KNormal {
				nv := fr.fresh("gh_"+gu.Name, old.T)
				fr.assumeWF(nst, nv)
				nst.ghost[gu.Name] = nv
			}
		}
	}
	run.preHeaps = map[string]Term{}
	ws := fr.loopWriteSet(li)
	if spec != nil && spec.HasMod {
		sc := fr.loopScope(st, loopAlloc, st)
		run.targets = fr.resolveTargets(sc, spec.Modifies)
		if ws.all {
			// the frame is checked against every heap known so far
			for hn, srt := range fr.top.heapSorts {
				run.preHeaps[hn] = fr.heap(st, hn, srt)
			}
		} else {
			for hn, srt := range ws.heaps {
				fr.top.heapSorts[hn] = srt
				run.preHeaps[hn] = fr.heap(st, hn, srt)
			}
		}
		fr.havocTargets(nst, run.targets)
	} else if ws.all {
		fr.havocAll(nst)
	} else {
		var names []string
		for hn := range ws.heaps {
			names = append(names, hn)
		}
		sort.Strings(names)
		for _, hn := range names {
			fr.top.heapSorts[hn] = ws.heaps[hn]
			nst.heaps[hn] = fr.ctx.Fresh("Hl:"+hn, ws.heaps[hn])
		}
		fr.reassertConstStrings(nst)
	}
	if fr.loopAllocates(li) {
		na := fr.ctx.Fresh("alloc", SInt)
		fr.assume(nst, IntCmp(">=", na, st.alloc))
		nst.alloc = na
	}
	// 3. assume invariant (+ auto range-index facts)
	if li.rangeCell != nil && li.rangeLim != nil {
		if id, ok := fr.cellOf[li.rangeCell]; ok {
			idx := nst.cells[id].Term()
			lim := fr.val(nst, li.rangeLim).Term()
			fr.assume(nst, And(ILe(IntT(-1), idx), ILt(idx, lim)))
			// the entry obligation for these facts: idx == -1 and 0 <= lim holds by construction
			fr.oblige(st, "inv-entry", lname+".rangeindex", And(ILe(IntT(-1), st.cells[id].Term()), ILt(st.cells[id].Term(), fr.val(st, li.rangeLim).Term())), nil, pos)
		}
	}
	if spec != nil {
		sc := fr.loopScope(nst, loopAlloc, st)
		for i, inv := range spec.Invariants {
			if g, ok := fr.tryEvalBool(sc, inv.E, "loop invariant "+lname+"."+clauseName(inv, i)); ok {
				fr.assume(nst, g)
			}
		}
		for _, d := range spec.Decreases {
			run.dec0 = append(run.dec0, fr.evalExpr(sc, d))
		}
		fr.oblige(nst, "cover", lname, False, nil, pos)
	}
	if spec == nil || len(spec.Decreases) == 0 {
		if li.rangeCell != nil && li.rangeLim != nil {
			// automatic variant: lim - idx
			if id, ok := fr.cellOf[li.rangeCell]; ok {
				idx := nst.cells[id].Term()
				lim := fr.val(nst, li.rangeLim).Term()
				run.dec0 = []Val{scalar(types.Typ[types.Int], ISub(lim, idx))}
			}
		}
	}
	return nst
}

func clauseName(c *Clause, i int) string {
	if c.Label != "" {
		return c.Label
	}
	return fmt.Sprintf("%d", i+1)
}

func (fr *Frame) backEdge(st *State, li *loopInfo, run *loopRun, from *ssa.BasicBlock) {
	spec := li.spec
	lname := fmt.Sprintf("loop%d", li.ordinal)
	pos := token.NoPos
	if len(li.header.Instrs) > 0 {
		pos = li.header.Instrs[0].Pos()
	}
	if li.rangeCell != nil && li.rangeLim != nil {
		if id, ok := fr.cellOf[li.rangeCell]; ok {
			idx := st.cells[id].Term()
			lim := fr.val(st, li.rangeLim).Term()
			fr.oblige(st, "inv-preserved", lname+".rangeindex", And(ILe(IntT(-1), idx), ILt(idx, lim)), nil, pos)
		}
	}
	if spec != nil {
		sc := fr.loopScope(st, run.hdr.alloc, run.hdr)
		for i, inv := range spec.Invariants {
			parts := SplitConj(inv.E)
			for k, p := range parts {
				g, _ := fr.tryEvalBool(sc, p, "loop invariant "+lname+"."+clauseName(inv, i))
				name := lname + "." + clauseName(inv, i)
				if len(parts) > 1 {
					name = fmt.Sprintf("%s.%d", name, k+1)
				}
				ci := *inv
				ci.Text = ExprString(p)
				fr.oblige(st, "inv-preserved", name, g, &ci, pos)
			}
		}
		if spec.HasMod {
			fr.frameObligations(st, run.preHeaps, run.hdr.alloc, run.targets, "loop-frame", lname, pos)
		}
	}
	// termination
	var dec1 []Val
	if spec != nil && len(spec.Decreases) > 0 {
		sc := fr.loopScope(st, run.hdr.alloc, run.hdr)
		for _, d := range spec.Decreases {
			dec1 = append(dec1, fr.evalExpr(sc, d))
		}
	} else if li.rangeCell != nil && li.rangeLim != nil {
		if id, ok := fr.cellOf[li.rangeCell]; ok {
			dec1 = []Val{scalar(types.Typ[types.Int], ISub(fr.val(st, li.rangeLim).Term(), st.cells[id].Term()))}
		}
	}
	if len(run.dec0) > 0 && len(dec1) == len(run.dec0) {
		// lexicographic decrease with lower bound 0 on the decreasing component
		var alts []Term
		eqPrefix := True
		for i := range dec1 {
			a0 := fr.coerceInt(run.dec0[i])
			a1 := fr.coerceInt(dec1[i])
			alts = append(alts, And(eqPrefix, ILt(a1, a0), ILe(IntT(0), a0)))
			eqPrefix = And(eqPrefix, Eq(a0, a1))
		}
		fr.oblige(st, "decreases", lname, Or(alts...), nil, pos)
	} else if li.mapRange {
		fr.top.trusted["range over a map terminates (Go semantics; assumes the body does not keep adding entries)"] = true
	} else if fr.fc == nil || !fr.fc.NoTerm {
		fr.oblige(st, "decreases", lname+".missing-variant", False, nil, pos)
	}
}

func (fr *Frame) coerceInt(v Val) Term {
	if v.K == KConst {
		return IntBig(v.Big.(*bigInt).v)
	}
	t := v.Term()
	if t.Sort != SInt && sortWidth(t.Sort) == 0 {
		panic(contractErr("decreases component is not an integer"))
	}
	return toInt(t, v.T)
}

func allocName(a *ssa.Alloc) string {
	if a.Comment != "" {
		return a.Comment
	}
	return a.Name()
}

// heapsWrittenIn over-approximates the heap names written inside a loop.
func (fr *Frame) heapsWrittenIn(li *loopInfo) []string {
	set := map[string]bool{}
	anyCall := false
	for b := range li.blocks {
		for _, in := range b.Instrs {
			switch x := in.(type) {
			case *ssa.Store:
				fr.heapNamesOfAddr(x.Addr, set)
			case *ssa.MapUpdate:
				anyCall = true
			case ssa.CallInstruction:
				cc := x.Common()
				if bi, ok := cc.Value.(*ssa.Builtin); ok {
					switch bi.Name() {
					case "append", "copy", "clear":
						if len(cc.Args) > 0 {
							fr.heapNamesOfElems(cc.Args[0].Type(), set)
						}
					}
					continue
				}
				anyCall = true
			}
		}
	}
	_ = anyCall
	var out []string
	for k := range set {
		if _, ok := fr.top.heapSorts[k]; ok {
			out = append(out, k)
		}
	}
	sort.Strings(out)
	return out
}

func (fr *Frame) loopAllocates(li *loopInfo) bool {
	for b := range li.blocks {
		for _, in := range b.Instrs {
			switch x := in.(type) {
			case *ssa.Alloc:
				if x.Heap {
					return true
				}
				switch x.Type().(*types.Pointer).Elem().Underlying().(type) {
				case *types.Struct, *types.Array:
					return true
				}
			case *ssa.MakeSlice, *ssa.MakeMap, *ssa.MakeChan, *ssa.MakeInterface, *ssa.MakeClosure:
				return true
			case ssa.CallInstruction:
				return true
			case *ssa.Convert:
				return true
			}
		}
	}
	return false
}

// loopHasCalls: the loop body contains a call that is not a pure builtin.
func (fr *Frame) loopHasCalls(li *loopInfo) bool {
	for b := range li.blocks {
		for _, in := range b.Instrs {
			switch x := in.(type) {
			case *ssa.MapUpdate:
				_ = x
			case ssa.CallInstruction:
				if _, ok := x.Common().Value.(*ssa.Builtin); ok {
					continue
				}
				return true
			}
		}
	}
	return false
}

// loopNested: loop #inner lies inside li.
func (fr *Frame) loopNested(inner int, li *loopInfo) bool {
	for _, l2 := range fr.loops {
		if l2.ordinal == inner {
			return li.blocks[l2.header]
		}
	}
	return false
}

func hookNameIn(names, name string) bool {
	for _, n := range strings.Split(names, "|") {
		if n == name {
			return true
		}
	}
	return false
}

// loopCalls: the loop contains a direct call of a function or method with that name.
func (fr *Frame) loopCalls(li *loopInfo, name string) bool {
	seen := map[*ssa.Function]bool{}
	var inBlocks func(blocks []*ssa.BasicBlock) bool
	inBlocks = func(blocks []*ssa.BasicBlock) bool {
		for _, b := range blocks {
			for _, in := range b.Instrs {
				ci, ok := in.(ssa.CallInstruction)
				if !ok {
					continue
				}
				cc := ci.Common()
				if cc.IsInvoke() {
					if hookNameIn(invokeHookNames(cc), name) {
						return true
					}
					continue
				}
				fn := cc.StaticCallee()
				if fn == nil {
					continue
				}
				if hookNameIn(fnHookNames(fn), name) {
					return true
				}
				// hooks also see the calls made by callees whose contract says "inline"
				fc := fr.en.CS.Funcs[FuncKey(fn)]
				expanded := (fc != nil && fc.Inline) || (fc == nil && fn.Pkg != nil && fr.en.inModule(fn.Pkg.Pkg.Path()) && len(fn.Blocks) > 0)
				if expanded && !seen[fn] {
					seen[fn] = true
					if inBlocks(fn.Blocks) {
						return true
					}
				}
			}
		}
		return false
	}
	var bs []*ssa.BasicBlock
	for b := range li.blocks {
		bs = append(bs, b)
	}
	return inBlocks(bs)
}

// attrEntryHeap: the entry content of a ghost attribute heap. Objects allocated later start
// with the attribute false; "initially-false" attributes are false for every object on entry.
func (fr *Frame) attrEntryHeap(name string) Term {
	h := fr.top.entryHeap(name, ArrSort(SInt, SBool))
	an := strings.TrimPrefix(name, "R:")
	if fr.en.CS.Attrs[an] {
		fr.ctx.Raw("attr0:"+an, fmt.Sprintf("(assert (forall ((r!a Int)) (! (not (select %s r!a)) :pattern ((select %s r!a)))))", h.S, h.S))
	} else {
		fr.ctx.Raw("attr0:"+an, fmt.Sprintf("(assert (forall ((r!a Int)) (! (=> (>= (stamp r!a) alloc0) (not (select %s r!a))) :pattern ((select %s r!a)))))", h.S, h.S))
	}
	return h
}
