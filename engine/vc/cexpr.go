package vc

import (
	"fmt"
	"math/big"
	"strconv"
	"strings"
)

// Contract expression AST (Go-like expression syntax plus ==>, <==>, ?:).

type Expr interface{}

type (
	EIdent struct{ Name string }
	ENum   struct{ V *big.Int }
	EStr   struct{ V string }
	EBin   struct {
		Op   string
		X, Y Expr
	}
	EUn struct {
		Op string
		X  Expr
	}
	ECall struct {
		Fun  Expr
		Args []Expr
	}
	ESel struct {
		X    Expr
		Name string
	}
	EIndex struct{ X, I Expr }
	ESlice struct{ X, Lo, Hi Expr }
	ECond  struct{ C, A, B Expr }
)

type tok struct {
	k string // "id", "num", "str", "op", "eof"
	s string
	n *big.Int
}

type lexer struct {
	src  string
	pos  int
	toks []tok
}

var ops3 = []string{"==>", "&^=", "<<=", ">>="}
var ops4 = []string{"<==>"}
var ops2 = []string{"==", "!=", "<=", ">=", "&&", "||", "<<", ">>", "&^", "::"}

func lex(src string) ([]tok, error) {
	var out []tok
	i := 0
	for i < len(src) {
		c := src[i]
		switch {
		case c == ' ' || c == '\t' || c == '\n' || c == '\r':
			i++
		case c >= '0' && c <= '9':
			j := i
			for j < len(src) && (isAlnum(src[j]) || src[j] == '_') {
				j++
			}
			txt := strings.ReplaceAll(src[i:j], "_", "")
			n := new(big.Int)
			if _, ok := n.SetString(txt, 0); !ok {
				return nil, fmt.Errorf("bad number %q", src[i:j])
			}
			out = append(out, tok{k: "num", s: src[i:j], n: n})
			i = j
		case isAlpha(c):
			j := i
			for j < len(src) && (isAlnum(src[j]) || src[j] == '_') {
				j++
			}
			out = append(out, tok{k: "id", s: src[i:j]})
			i = j
		case c == '\'':
			// char literal
			j := i + 1
			for j < len(src) && src[j] != '\'' {
				if src[j] == '\\' {
					j++
				}
				j++
			}
			if j >= len(src) {
				return nil, fmt.Errorf("unterminated char literal")
			}
			r, _, _, err := strconv.UnquoteChar(src[i+1:j], '\'')
			if err != nil {
				return nil, fmt.Errorf("bad char literal %q", src[i:j+1])
			}
			out = append(out, tok{k: "num", s: src[i : j+1], n: big.NewInt(int64(r))})
			i = j + 1
		case c == '"':
			j := i + 1
			for j < len(src) && src[j] != '"' {
				if src[j] == '\\' {
					j++
				}
				j++
			}
			if j >= len(src) {
				return nil, fmt.Errorf("unterminated string literal")
			}
			s, err := strconv.Unquote(src[i : j+1])
			if err != nil {
				return nil, fmt.Errorf("bad string literal %q", src[i:j+1])
			}
			out = append(out, tok{k: "str", s: s})
			i = j + 1
		default:
			matched := false
			for _, set := range [][]string{ops4, ops3, ops2} {
				for _, o := range set {
					if strings.HasPrefix(src[i:], o) {
						out = append(out, tok{k: "op", s: o})
						i += len(o)
						matched = true
						break
					}
				}
				if matched {
					break
				}
			}
			if !matched {
				out = append(out, tok{k: "op", s: string(c)})
				i++
			}
		}
	}
	out = append(out, tok{k: "eof"})
	return out, nil
}

func isAlpha(c byte) bool { return c >= 'a' && c <= 'z' || c >= 'A' && c <= 'Z' || c == '_' }
func isAlnum(c byte) bool { return isAlpha(c) || c >= '0' && c <= '9' }

type cparser struct {
	toks []tok
	p    int
}

func ParseExpr(src string) (e Expr, err error) {
	toks, err := lex(src)
	if err != nil {
		return nil, err
	}
	ps := &cparser{toks: toks}
	defer func() {
		if r := recover(); r != nil {
			if pe, ok := r.(parseErr); ok {
				err = fmt.Errorf("%s in %q", string(pe), src)
				return
			}
			panic(r)
		}
	}()
	e = ps.cond()
	if ps.peek().k != "eof" {
		ps.fail("unexpected token %q", ps.peek().s)
	}
	return e, nil
}

type parseErr string

func (p *cparser) fail(f string, a ...any) { panic(parseErr(fmt.Sprintf(f, a...))) }
func (p *cparser) peek() tok               { return p.toks[p.p] }
func (p *cparser) next() tok               { t := p.toks[p.p]; p.p++; return t }
func (p *cparser) isOp(s string) bool      { t := p.peek(); return t.k == "op" && t.s == s }
func (p *cparser) expect(s string) {
	if !p.isOp(s) {
		p.fail("expected %q, got %q", s, p.peek().s)
	}
	p.next()
}

func (p *cparser) cond() Expr {
	c := p.impl()
	if p.isOp("?") {
		p.next()
		a := p.cond()
		p.expect(":")
		b := p.cond()
		return &ECond{c, a, b}
	}
	return c
}

func (p *cparser) impl() Expr {
	x := p.binary(1)
	if p.isOp("==>") {
		p.next()
		y := p.impl()
		return &EBin{"==>", x, y}
	}
	if p.isOp("<==>") {
		p.next()
		y := p.impl()
		return &EBin{"<==>", x, y}
	}
	return x
}

func prec(op string) int {
	switch op {
	case "||":
		return 1
	case "&&":
		return 2
	case "==", "!=", "<", "<=", ">", ">=":
		return 3
	case "+", "-", "|", "^":
		return 4
	case "*", "/", "%", "<<", ">>", "&", "&^":
		return 5
	}
	return 0
}

func (p *cparser) binary(min int) Expr {
	x := p.unary()
	for {
		t := p.peek()
		if t.k != "op" {
			return x
		}
		pr := prec(t.s)
		if pr == 0 || pr < min {
			return x
		}
		p.next()
		y := p.binary(pr + 1)
		x = &EBin{t.s, x, y}
	}
}

func (p *cparser) unary() Expr {
	t := p.peek()
	if t.k == "op" {
		switch t.s {
		case "!", "-", "^", "*", "&", "+":
			p.next()
			return &EUn{t.s, p.unary()}
		}
	}
	return p.postfix()
}

func (p *cparser) postfix() Expr {
	x := p.primary()
	for {
		switch {
		case p.isOp("."):
			p.next()
			t := p.next()
			if t.k != "id" {
				p.fail("expected identifier after '.'")
			}
			x = &ESel{x, t.s}
		case p.isOp("("):
			p.next()
			var args []Expr
			for !p.isOp(")") {
				args = append(args, p.cond())
				if p.isOp(",") {
					p.next()
				} else {
					break
				}
			}
			p.expect(")")
			x = &ECall{x, args}
		case p.isOp("["):
			p.next()
			var lo, hi Expr
			if p.isOp(":") {
				p.next()
				if !p.isOp("]") {
					hi = p.cond0()
				}
				p.expect("]")
				x = &ESlice{x, nil, hi}
				continue
			}
			lo = p.cond0()
			if p.isOp(":") {
				p.next()
				if !p.isOp("]") {
					hi = p.cond0()
				}
				p.expect("]")
				x = &ESlice{x, lo, hi}
				continue
			}
			p.expect("]")
			x = &EIndex{x, lo}
		default:
			return x
		}
	}
}

// cond0 parses an expression that must not swallow a ':' (inside [..:..]).
func (p *cparser) cond0() Expr { return p.impl() }

func (p *cparser) primary() Expr {
	t := p.next()
	switch t.k {
	case "id":
		return &EIdent{t.s}
	case "num":
		return &ENum{t.n}
	case "str":
		return &EStr{t.s}
	case "op":
		if t.s == "(" {
			e := p.cond()
			p.expect(")")
			return e
		}
	}
	p.fail("unexpected token %q", t.s)
	return nil
}

// ExprString renders an expression (for obligation names / messages).
func ExprString(e Expr) string {
	switch e := e.(type) {
	case *EIdent:
		return e.Name
	case *ENum:
		return e.V.String()
	case *EStr:
		return strconv.Quote(e.V)
	case *EBin:
		return "(" + ExprString(e.X) + " " + e.Op + " " + ExprString(e.Y) + ")"
	case *EUn:
		return e.Op + ExprString(e.X)
	case *ECall:
		var a []string
		for _, x := range e.Args {
			a = append(a, ExprString(x))
		}
		return ExprString(e.Fun) + "(" + strings.Join(a, ", ") + ")"
	case *ESel:
		return ExprString(e.X) + "." + e.Name
	case *EIndex:
		return ExprString(e.X) + "[" + ExprString(e.I) + "]"
	case *ESlice:
		lo, hi := "", ""
		if e.Lo != nil {
			lo = ExprString(e.Lo)
		}
		if e.Hi != nil {
			hi = ExprString(e.Hi)
		}
		return ExprString(e.X) + "[" + lo + ":" + hi + "]"
	case *ECond:
		return "(" + ExprString(e.C) + " ? " + ExprString(e.A) + " : " + ExprString(e.B) + ")"
	}
	return "?"
}

// SplitConj splits an expression into conjuncts, distributing implications:
// A ==> (B && C)  gives  A ==> B, A ==> C.
func SplitConj(e Expr) []Expr {
	switch x := e.(type) {
	case *EBin:
		switch x.Op {
		case "&&":
			return append(SplitConj(x.X), SplitConj(x.Y)...)
		case "==>":
			var out []Expr
			for _, y := range SplitConj(x.Y) {
				out = append(out, &EBin{"==>", x.X, y})
			}
			return out
		}
	}
	return []Expr{e}
}
