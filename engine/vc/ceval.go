package vc

import (
	"fmt"
	"go/constant"
	"go/token"
	"go/types"
	"math/big"
	"strings"
)

// Scope is the environment in which a contract expression is evaluated.
type Scope struct {
	fr    *Frame
	st    *State            // state for heap reads and cells
	old   *State            // state for old(...) (may be nil)
	vars  map[string]Val    // parameters, results, bound variables
	entry map[string]Val    // entry values of parameters (x0 / old(x))
	pkg   *types.Package    // for resolving package-level names
	cells bool              // resolve names of local variables of fr
	loopAlloc Term          // allocation counter at the entry of the enclosing loop
	loopEntry *State        // state at the entry of the enclosing loop (for loopOld)
	nquant int
}

func (sc *Scope) with(name string, v Val) *Scope {
	n := *sc
	n.vars = make(map[string]Val, len(sc.vars)+1)
	for k, x := range sc.vars {
		n.vars[k] = x
	}
	n.vars[name] = v
	return &n
}

func (sc *Scope) inState(st *State) *Scope {
	n := *sc
	n.st = st
	return &n
}

func cfail(f string, a ...any) { panic(contractErr(fmt.Sprintf(f, a...))) }

func constVal(v *big.Int) Val { return Val{K: KConst, Big: &bigInt{v}} }

func (fr *Frame) evalBool(sc *Scope, e Expr) Term {
	v := fr.evalExpr(sc, e)
	if v.K != KNormal || len(v.C) != 1 || v.C[0].Sort != SBool {
		cfail("expression %s is not boolean", ExprString(e))
	}
	return v.C[0]
}

// tryEvalBool evaluates a contract clause; a clause that cannot be evaluated against the current code any more
// (it names a local, field or parameter that no longer exists where the clause applies) is an obligation that
// fails - reported under its own name with the reason - not a tool error. ok is false then (nothing is assumed
// from such a clause).
func (fr *Frame) tryEvalBool(sc *Scope, e Expr, what string) (g Term, ok bool) {
	defer func() {
		if r := recover(); r != nil {
			switch r.(type) {
			case contractErr:
				fr.top.note(fmt.Sprintf("%s cannot be evaluated against this code any more: %v", what, r))
				g, ok = False, false
			default:
				panic(r)
			}
		}
	}()
	return fr.evalBool(sc, e), true
}

// coerce turns a constant into a value of the type of other.
func (fr *Frame) coerce(c Val, other Val) Val {
	if c.K == KCondConst {
		a := fr.coerce(c.Elems[0], other)
		b := fr.coerce(c.Elems[1], other)
		m, ok := iteVal(c.C[0], a, b)
		if !ok {
			cfail("cannot type conditional constant")
		}
		return m
	}
	if c.K != KConst {
		return c
	}
	if other.K == KConst || other.K == KCondConst {
		return scalar(types.Typ[types.Int], IntBig(c.Big.(*bigInt).v))
	}
	if other.K == KNormal && len(other.C) == 1 {
		if w := sortWidth(other.C[0].Sort); w > 0 {
			return scalar(other.T, BVBig(c.Big.(*bigInt).v, w))
		}
		if other.C[0].Sort == SInt {
			return scalar(other.T, IntBig(c.Big.(*bigInt).v))
		}
	}
	cfail("cannot use constant with value of type %v", other.T)
	return Val{}
}

func (fr *Frame) lookupIdent(sc *Scope, name string) (Val, bool) {
	if v, ok := sc.vars[name]; ok {
		return v, true
	}
	switch name {
	case "true":
		return scalar(types.Typ[types.Bool], True), true
	case "false":
		return scalar(types.Typ[types.Bool], False), true
	case "nil":
		return Val{K: KConst, Big: nil}, true
	}
	if sc.cells {
		if v, ok := fr.lookupLocal(sc, name); ok {
			return v, true
		}
	}
	if v, ok := sc.st.ghost[name]; ok {
		return v, true
	}
	if strings.HasSuffix(name, "0") && len(name) > 1 {
		if v, ok := sc.entry[name[:len(name)-1]]; ok {
			return v, true
		}
	}
	if sc.pkg != nil {
		if obj := sc.pkg.Scope().Lookup(name); obj != nil {
			return fr.objVal(sc, obj)
		}
	}
	return Val{}, false
}

// lookupLocal resolves a source-level local variable name to its current value.
func (fr *Frame) lookupLocal(sc *Scope, name string) (Val, bool) {
	base, ord := name, 1
	if i := strings.LastIndex(name, "_"); i > 0 {
		var n int
		if _, err := fmt.Sscanf(name[i+1:], "%d", &n); err == nil && n >= 2 {
			if _, ok := fr.localNames[name]; !ok {
				base, ord = name[:i], n
			}
		}
	}
	as := fr.localNames[base]
	if len(as) < ord {
		return Val{}, false
	}
	a := as[ord-1]
	if id, ok := fr.cellOf[a]; ok {
		v, ok := sc.st.cells[id]
		return v, ok
	}
	if r, ok := fr.regs[a]; ok { // struct/array local: its reference
		r.Nav = true
		return r, true
	}
	return Val{}, false
}

func (fr *Frame) objVal(sc *Scope, obj types.Object) (Val, bool) {
	switch o := obj.(type) {
	case *types.Const:
		return fr.constantVal(sc, o.Val(), o.Type()), true
	case *types.Var:
		// package-level variable
		if pkg := fr.en.ssaPkg(o.Pkg()); pkg != nil {
			if g, ok := pkg.Members[o.Name()].(interface{ Name() string }); ok {
				_ = g
			}
			if g := pkg.Var(o.Name()); g != nil {
				return fr.loadGlobal(sc.st, Val{K: KGlobalPtr, T: g.Type(), Glob: g}), true
			}
		}
	}
	return Val{}, false
}

func (fr *Frame) constantVal(sc *Scope, cv constant.Value, t types.Type) Val {
	switch cv.Kind() {
	case constant.Bool:
		if constant.BoolVal(cv) {
			return scalar(t, True)
		}
		return scalar(t, False)
	case constant.Int:
		bi, _ := new(big.Int).SetString(cv.ExactString(), 10)
		if b, ok := t.Underlying().(*types.Basic); ok {
			if w, _, ok := basicWidth(b); ok && b.Info()&types.IsUntyped == 0 {
				if isWide(t) {
					return scalar(t, IntBig(bi))
				}
				return scalar(t, BVBig(bi, w))
			}
		}
		return constVal(bi)
	case constant.String:
		return fr.stringConst(sc.st, types.Typ[types.String], constant.StringVal(cv))
	}
	cfail("unsupported constant kind")
	return Val{}
}

func (fr *Frame) resolveType(sc *Scope, e Expr) types.Type {
	switch x := e.(type) {
	case *EIdent:
		if obj := types.Universe.Lookup(x.Name); obj != nil {
			if tn, ok := obj.(*types.TypeName); ok {
				return tn.Type()
			}
		}
		if sc.pkg != nil {
			if tn, ok := sc.pkg.Scope().Lookup(x.Name).(*types.TypeName); ok {
				return tn.Type()
			}
		}
	case *ESel:
		if id, ok := x.X.(*EIdent); ok {
			if p := fr.en.pkgByName(sc.pkg, id.Name); p != nil {
				if tn, ok := p.Scope().Lookup(x.Name).(*types.TypeName); ok {
					return tn.Type()
				}
			}
		}
	}
	return nil
}

func (fr *Frame) evalExpr(sc *Scope, e Expr) Val {
	switch x := e.(type) {
	case *ENum:
		return constVal(x.V)
	case *EStr:
		return fr.stringConst(sc.st, types.Typ[types.String], x.V)
	case *EIdent:
		v, ok := fr.lookupIdent(sc, x.Name)
		if !ok {
			cfail("unknown identifier %q", x.Name)
		}
		return v
	case *ECond:
		c := fr.evalBool(sc, x.C)
		a := fr.evalExpr(sc, x.A)
		b := fr.evalExpr(sc, x.B)
		if (a.K == KConst || a.K == KCondConst) && (b.K == KConst || b.K == KCondConst) && !isNilConst(a) && !isNilConst(b) {
			return Val{K: KCondConst, C: []Term{c}, Elems: []Val{a, b}}
		}
		if isNilConst(a) && b.K == KNormal && b.T != nil {
			a = fr.en.zero(b.T)
		} else if isNilConst(b) && a.K == KNormal && a.T != nil {
			b = fr.en.zero(a.T)
		}
		a, b = fr.coerce(a, b), fr.coerce(b, a)
		m, ok := iteVal(c, a, b)
		if !ok {
			cfail("branches of ?: have different shapes: %s", ExprString(e))
		}
		return m
	case *EUn:
		return fr.evalUnary(sc, x)
	case *EBin:
		return fr.evalBinary(sc, x)
	case *ESel:
		return fr.evalSel(sc, x)
	case *EIndex:
		return fr.evalIndex(sc, x)
	case *ESlice:
		return fr.evalSliceExpr(sc, x)
	case *ECall:
		return fr.evalCall(sc, x)
	}
	cfail("unsupported expression %s", ExprString(e))
	return Val{}
}

func (fr *Frame) evalUnary(sc *Scope, x *EUn) Val {
	v := fr.evalExpr(sc, x.X)
	switch x.Op {
	case "!":
		return scalar(types.Typ[types.Bool], Not(v.Term()))
	case "-":
		if v.K == KConst {
			return constVal(new(big.Int).Neg(v.Big.(*bigInt).v))
		}
		t := v.Term()
		if t.Sort == SInt {
			return scalar(v.T, wrapInt(ISub(IntT(0), t), isSigned(v.T)))
		}
		return scalar(v.T, app(t.Sort, "bvneg", t))
	case "+":
		return v
	case "^":
		if v.K == KConst {
			return constVal(new(big.Int).Not(v.Big.(*bigInt).v))
		}
		t := v.Term()
		return scalar(v.T, app(t.Sort, "bvnot", t))
	case "*":
		pt, ok := v.T.Underlying().(*types.Pointer)
		if !ok {
			cfail("dereference of non-pointer in %s", ExprString(x))
		}
		return fr.load(sc.st, v, pt.Elem())
	case "&":
		// address of a struct- or array-typed field reached through a pointer (&p.f): its sub-object reference
		if _, ok := v.T.Underlying().(*types.Pointer); ok && v.Nav && v.K == KNormal {
			v.Nav = false
			return v
		}
		cfail("& is supported on struct or array fields reached through a pointer only (%s)", ExprString(x))
	}
	cfail("unsupported unary operator %s", x.Op)
	return Val{}
}

func isNilConst(v Val) bool { return v.K == KConst && v.Big == nil }

func (fr *Frame) nilTest(v Val) Term {
	if v.K != KNormal {
		return Not(ptrNonNil(v))
	}
	switch v.T.Underlying().(type) {
	case *types.Interface:
		return Eq(v.C[0], IntT(0))
	default:
		return Eq(v.C[0], Nil)
	}
}

func (fr *Frame) evalBinary(sc *Scope, x *EBin) Val {
	boolT := types.Typ[types.Bool]
	switch x.Op {
	case "&&":
		return scalar(boolT, And(fr.evalBool(sc, x.X), fr.evalBool(sc, x.Y)))
	case "||":
		return scalar(boolT, Or(fr.evalBool(sc, x.X), fr.evalBool(sc, x.Y)))
	case "==>":
		// short-circuit: with a statically false antecedent the consequent need not even be well-typed
		// (e.g. "arg0 == c.memory ==> ..." at a call whose receiver has another type)
		ant := fr.evalBool(sc, x.X)
		if ant.S == "false" {
			return scalar(boolT, True)
		}
		return scalar(boolT, Implies(ant, fr.evalBool(sc, x.Y)))
	case "<==>":
		return scalar(boolT, Eq(fr.evalBool(sc, x.X), fr.evalBool(sc, x.Y)))
	}
	a := fr.evalExpr(sc, x.X)
	b := fr.evalExpr(sc, x.Y)
	if x.Op == "==" || x.Op == "!=" {
		var eq Term
		switch {
		case isNilConst(a) && isNilConst(b):
			eq = True
		case isNilConst(b):
			eq = fr.nilTest(a)
		case isNilConst(a):
			eq = fr.nilTest(b)
		case a.K == KKey && b.K == KKey:
			eq = Eq(a.C[0], b.C[0])
		case ptrTypesDiffer(a, b):
			eq = False // pointers of different static types never alias (no unsafe casts in the subset)
		default:
			// struct values are navigated by reference in contract expressions; == compares contents
			loadNav := func(v Val) Val {
				if !v.Nav || v.K != KNormal || len(v.C) != 1 {
					return v
				}
				pt, ok := v.T.Underlying().(*types.Pointer)
				if !ok {
					return v
				}
				if strings.Contains(ExprString(x), "old(") {
					cfail("== on struct values under old() is not supported: compare the fields (%s)", ExprString(x))
				}
				switch u := pt.Elem().Underlying().(type) {
				case *types.Struct:
					return fr.loadStruct(sc.st, v.C[0], pt.Elem())
				case *types.Array:
					return fr.loadArray(sc.st, v.C[0], pt.Elem(), u)
				}
				return v
			}
			if a.Nav || b.Nav {
				a, b = loadNav(a), loadNav(b)
			}
			a, b = fr.coerce(a, b), fr.coerce(b, a)
			if a.K == KNormal && b.K == KNormal && len(a.C) == 1 && len(b.C) == 1 && a.C[0].Sort != b.C[0].Sort {
				cfail("comparison of different types in %s (%s vs %s)", ExprString(x), a.C[0].Sort, b.C[0].Sort)
			}
			// pointer against interface value: identity of the object the interface holds
			isIface := func(v Val) bool {
				if v.K != KNormal || v.T == nil || len(v.C) != 2 {
					return false
				}
				_, ok := v.T.Underlying().(*types.Interface)
				return ok
			}
			if isIface(a) && b.K == KNormal && len(b.C) == 1 {
				a = scalar(b.T, a.C[1])
			} else if isIface(b) && a.K == KNormal && len(a.C) == 1 {
				b = scalar(a.T, b.C[1])
			}
			eq = fr.valEq(sc.st, a, b, a.T)
		}
		if x.Op == "!=" {
			eq = Not(eq)
		}
		return scalar(boolT, eq)
	}
	if a.K == KConst && b.K == KConst {
		av, bv := a.Big.(*bigInt).v, b.Big.(*bigInt).v
		r := new(big.Int)
		switch x.Op {
		case "+":
			return constVal(r.Add(av, bv))
		case "-":
			return constVal(r.Sub(av, bv))
		case "*":
			return constVal(r.Mul(av, bv))
		case "/":
			return constVal(r.Quo(av, bv))
		case "%":
			return constVal(r.Rem(av, bv))
		case "<<":
			return constVal(r.Lsh(av, uint(bv.Int64())))
		case ">>":
			return constVal(r.Rsh(av, uint(bv.Int64())))
		case "&":
			return constVal(r.And(av, bv))
		case "|":
			return constVal(r.Or(av, bv))
		case "^":
			return constVal(r.Xor(av, bv))
		case "<":
			return scalar(boolT, boolTerm(av.Cmp(bv) < 0))
		case "<=":
			return scalar(boolT, boolTerm(av.Cmp(bv) <= 0))
		case ">":
			return scalar(boolT, boolTerm(av.Cmp(bv) > 0))
		case ">=":
			return scalar(boolT, boolTerm(av.Cmp(bv) >= 0))
		}
	}
	var opT types.Type
	if x.Op == "<<" || x.Op == ">>" {
		if a.K == KConst {
			a = scalar(types.Typ[types.Int], IntBig(a.Big.(*bigInt).v))
		}
		if b.K == KConst {
			b = scalar(types.Typ[types.Uint], IntBig(b.Big.(*bigInt).v))
		}
		opT = a.T
	} else {
		a, b = fr.coerce(a, b), fr.coerce(b, a)
		opT = a.T
		if a.K == KNormal && b.K == KNormal && len(a.C) == 1 && len(b.C) == 1 && a.C[0].Sort != b.C[0].Sort {
			cfail("operands of %s have different types in %s (%s vs %s)", x.Op, ExprString(x), a.C[0].Sort, b.C[0].Sort)
		}
	}
	tok := map[string]token.Token{"+": token.ADD, "-": token.SUB, "*": token.MUL, "/": token.QUO, "%": token.REM,
		"<<": token.SHL, ">>": token.SHR, "&": token.AND, "|": token.OR, "^": token.XOR, "&^": token.AND_NOT,
		"<": token.LSS, "<=": token.LEQ, ">": token.GTR, ">=": token.GEQ}[x.Op]
	resT := opT
	switch x.Op {
	case "<", "<=", ">", ">=":
		resT = boolT
	}
	return fr.binop(sc.st, tok, a, b, opT, resT, nil)
}

func boolTerm(b bool) Term {
	if b {
		return True
	}
	return False
}

func (fr *Frame) evalSel(sc *Scope, x *ESel) Val {
	// package-qualified name?
	if id, ok := x.X.(*EIdent); ok {
		if _, isVar := fr.lookupIdent(sc, id.Name); !isVar {
			if p := fr.en.pkgByName(sc.pkg, id.Name); p != nil {
				obj := p.Scope().Lookup(x.Name)
				if obj == nil {
					cfail("unknown name %s.%s", id.Name, x.Name)
				}
				v, ok := fr.objVal(sc, obj)
				if !ok {
					cfail("cannot evaluate %s.%s", id.Name, x.Name)
				}
				return v
			}
		}
	}
	v := fr.evalExpr(sc, x.X)
	r := fr.selectField(sc, v, x.Name, ExprString(x))
	fr.assumeWFSpec(sc, r)
	return r
}

// assumeWFSpec: a value read from the heap inside a contract expression is well-formed in
// the state it was read from (only stated when the term has no bound variable).
func (fr *Frame) assumeWFSpec(sc *Scope, v Val) {
	if v.K != KNormal {
		return
	}
	for _, c := range v.C {
		if strings.Contains(c.S, "!q") {
			return
		}
	}
	fr.assumeWF(sc.st, v)
}

func (fr *Frame) selectField(sc *Scope, v Val, name string, what string) Val {
	if v.K == KElemPtr || v.K == KCellPtr || v.K == KFieldPtr || v.K == KBoxPtr {
		// pointer to a slice element, local, field or box holding a struct: select from the struct it points to
		if pt, ok := v.T.Underlying().(*types.Pointer); ok {
			if _, ok := pt.Elem().Underlying().(*types.Struct); ok {
				v = fr.load(sc.st, v, pt.Elem())
			}
		}
	}
	if v.K != KNormal {
		cfail("field selection on unsupported value in %s", what)
	}
	t := v.T
	var stt *types.Struct
	isPtr := false
	if pt, ok := t.Underlying().(*types.Pointer); ok {
		isPtr = true
		t = pt.Elem()
	}
	stt, ok := t.Underlying().(*types.Struct)
	if !ok {
		cfail("field selection .%s on non-struct %v in %s", name, v.T, what)
	}
	// find the field, looking through embedded structs
	path := findField(stt, name)
	if path == nil {
		cfail("no field %s in %v (%s)", name, t, what)
	}
	cur := v
	curT := t
	curPtr := isPtr
	for _, i := range path {
		cst := curT.Underlying().(*types.Struct)
		ft := cst.Field(i).Type()
		if curPtr {
			ref := cur.Term()
			switch ft.Underlying().(type) {
			case *types.Struct:
				cur = scalar(types.NewPointer(ft), fr.subRef(ref, typeName(curT), cst, i))
				cur.Nav = true
				curT = ft
				continue
			case *types.Array:
				cur = scalar(types.NewPointer(ft), fr.subRef(ref, typeName(curT), cst, i))
				cur.Nav = true
				curT = ft
				continue
			}
			cur = fr.loadField(sc.st, ref, typeName(curT), cst, i)
			curT = ft
			curPtr = false
			if _, ok := ft.Underlying().(*types.Pointer); ok {
				// value is a pointer; further selection goes through it
				pt := ft.Underlying().(*types.Pointer)
				if _, ok := pt.Elem().Underlying().(*types.Struct); ok {
					curPtr = true
					curT = pt.Elem()
				}
			}
		} else {
			cur = fr.en.structField(cur, i)
			curT = ft
			if pt, ok := ft.Underlying().(*types.Pointer); ok {
				if _, ok := pt.Elem().Underlying().(*types.Struct); ok {
					curPtr = true
					curT = pt.Elem()
				}
			}
		}
	}
	// if we ended on a pointer-to-struct/array for a struct-typed field accessed via pointer, and the
	// caller wants the value (e.g. m.Header), keep the reference form: selection continues to work.
	return cur
}

func findField(stt *types.Struct, name string) []int {
	for i := 0; i < stt.NumFields(); i++ {
		if stt.Field(i).Name() == name {
			return []int{i}
		}
	}
	for i := 0; i < stt.NumFields(); i++ {
		f := stt.Field(i)
		if !f.Embedded() {
			continue
		}
		ft := f.Type()
		if pt, ok := ft.Underlying().(*types.Pointer); ok {
			ft = pt.Elem()
		}
		if est, ok := ft.Underlying().(*types.Struct); ok {
			if p := findField(est, name); p != nil {
				return append([]int{i}, p...)
			}
		}
	}
	return nil
}

func (fr *Frame) toIdx(v Val) Term {
	if v.K == KConst {
		return IntBig(v.Big.(*bigInt).v)
	}
	return toInt(v.Term(), v.T)
}

// derefArray: for a pointer-to-array value return (objRef, array type).
func ptrToArray(v Val) (*types.Array, bool) {
	if pt, ok := v.T.Underlying().(*types.Pointer); ok {
		if at, ok := pt.Elem().Underlying().(*types.Array); ok {
			return at, true
		}
	}
	return nil, false
}

func (fr *Frame) evalIndex(sc *Scope, x *EIndex) Val {
	b := fr.evalExpr(sc, x.X)
	iv := fr.evalExpr(sc, x.I)
	if b.K != KNormal {
		cfail("index of unsupported value in %s", ExprString(x))
	}
	if at, ok := ptrToArray(b); ok {
		i := fr.toIdx(iv)
		return fr.loadElem(sc.st, b.Term(), i, at.Elem(), 0, -1, at.Elem())
	}
	switch u := b.T.Underlying().(type) {
	case *types.Slice:
		i := fr.toIdx(iv)
		v := fr.loadElem(sc.st, b.Obj(), addIdx(b.Off(), i), u.Elem(), 0, -1, u.Elem())
		return v
	case *types.Basic:
		if isString(b.T) {
			i := fr.toIdx(iv)
			return fr.loadElem(sc.st, b.Obj(), addIdx(b.Off(), i), types.Typ[types.Uint8], 0, -1, types.Typ[types.Uint8])
		}
	case *types.Array:
		i := fr.toIdx(iv)
		v := Val{K: KNormal, T: u.Elem()}
		for _, c := range b.C {
			v.C = append(v.C, Select(c, i))
		}
		return v
	case *types.Map:
		k := fr.mapKey(sc.st, u, fr.coerceTo(iv, u.Key()))
		return fr.mapGet(sc.st, b.Term(), u, b.T, k)
	}
	cfail("cannot index %v in %s", b.T, ExprString(x))
	return Val{}
}

func (fr *Frame) coerceTo(v Val, t types.Type) Val {
	if v.K != KConst {
		return v
	}
	if b, ok := t.Underlying().(*types.Basic); ok {
		if w, _, ok := basicWidth(b); ok {
			if isWide(t) {
				return scalar(t, IntBig(v.Big.(*bigInt).v))
			}
			return scalar(t, BVBig(v.Big.(*bigInt).v, w))
		}
	}
	cfail("cannot convert constant to %v", t)
	return Val{}
}

func (fr *Frame) evalSliceExpr(sc *Scope, x *ESlice) Val {
	b := fr.evalExpr(sc, x.X)
	var obj, off, ln, cp Term
	var rt types.Type
	if at, ok := ptrToArray(b); ok {
		obj, off, ln, cp = b.Term(), IntT(0), IntT(at.Len()), IntT(at.Len())
		rt = types.NewSlice(at.Elem())
	} else if _, ok := b.T.Underlying().(*types.Slice); ok {
		obj, off, ln, cp = b.Obj(), b.Off(), b.Len(), b.Cap()
		rt = b.T
	} else if isString(b.T) {
		obj, off, ln, cp = b.Obj(), b.Off(), b.Len(), b.Len()
		rt = b.T
	} else {
		cfail("cannot slice %v in %s", b.T, ExprString(x))
	}
	lo := IntT(0)
	if x.Lo != nil {
		lo = fr.toIdx(fr.evalExpr(sc, x.Lo))
	}
	hi := ln
	if x.Hi != nil {
		hi = fr.toIdx(fr.evalExpr(sc, x.Hi))
	}
	if isString(rt) {
		return mkString(rt, obj, IAdd(off, lo), ISub(hi, lo))
	}
	return mkSlice(rt, obj, IAdd(off, lo), ISub(hi, lo), ISub(cp, lo))
}

func (fr *Frame) boundVar(sc *Scope, name string, t types.Type) (Term, *Scope) {
	sc.fr.top.nbound++
	bv := Term{fmt.Sprintf("%s!q%d", name, sc.fr.top.nbound), fr.en.layout(t)[0].Sort}
	return bv, sc.with(name, scalar(t, bv))
}

func (fr *Frame) evalCall(sc *Scope, x *ECall) Val {
	boolT := types.Typ[types.Bool]
	intT := types.Typ[types.Int]
	name := ""
	if id, ok := x.Fun.(*EIdent); ok {
		name = id.Name
	}
	argn := func(n int) {
		if len(x.Args) != n {
			cfail("%s expects %d arguments", name, n)
		}
	}
	switch name {
	case "old":
		argn(1)
		if sc.old == nil {
			cfail("old() used where no pre-state exists")
		}
		n := *sc
		n.st = sc.old
		// parameters refer to their entry values inside old()
		if len(sc.entry) > 0 {
			n.vars = make(map[string]Val, len(sc.vars))
			for k, v := range sc.vars {
				n.vars[k] = v
			}
			for k, v := range sc.entry {
				n.vars[k] = v
			}
		}
		return fr.evalExpr(&n, x.Args[0])
	case "len", "cap":
		argn(1)
		v := fr.evalExpr(sc, x.Args[0])
		if at, ok := ptrToArray(v); ok {
			return scalar(intT, IntT(at.Len()))
		}
		switch u := v.T.Underlying().(type) {
		case *types.Slice:
			if name == "len" {
				return scalar(intT, v.Len())
			}
			return scalar(intT, v.Cap())
		case *types.Array:
			return scalar(intT, IntT(u.Len()))
		case *types.Basic:
			if isString(v.T) {
				return scalar(intT, v.Len())
			}
		}
		cfail("%s of %v", name, v.T)
	case "min", "max":
		argn(2)
		a := fr.evalExpr(sc, x.Args[0])
		b := fr.evalExpr(sc, x.Args[1])
		a, b = fr.coerce(a, b), fr.coerce(b, a)
		var c Term
		if a.Term().Sort == SInt {
			c = ILe(a.Term(), b.Term())
		} else {
			op := "bvule"
			if isSigned(a.T) {
				op = "bvsle"
			}
			c = BVCmp(op, a.Term(), b.Term())
		}
		if name == "min" {
			return scalar(a.T, Ite(c, a.Term(), b.Term()))
		}
		return scalar(a.T, Ite(c, b.Term(), a.Term()))
	case "ite":
		argn(3)
		return fr.evalExpr(sc, &ECond{x.Args[0], x.Args[1], x.Args[2]})
	case "forall", "exists":
		// forall(i, lo, hi, P)  — i ranges over int lo <= i < hi
		// forall(i uintN ..) not supported; optional 5th arg: pattern expression
		if len(x.Args) < 4 {
			cfail("%s(i, lo, hi, P) expects 4 arguments", name)
		}
		id, ok := x.Args[0].(*EIdent)
		if !ok {
			cfail("first argument of %s must be an identifier", name)
		}
		lo := fr.toIdx(fr.evalExpr(sc, x.Args[1]))
		hi := fr.toIdx(fr.evalExpr(sc, x.Args[2]))
		bv, sc2 := fr.boundVar(sc, id.Name, intT)
		body := fr.evalBool(sc2, x.Args[3])
		rng := InRange(bv, lo, hi)
		var pats []Term
		for _, p := range x.Args[4:] {
			pv := fr.evalExpr(sc2, p)
			if pv.K == KNormal && len(pv.C) >= 1 {
				pats = append(pats, pv.C[len(pv.C)-1])
			}
		}
		if name == "forall" {
			return scalar(boolT, forallRange(bv, lo, hi, body, pats))
		}
		_ = rng
		// same index normal form as forall (absolute index into the array read first), so that the
		// negated existential is a universal the solvers can instantiate by matching array reads
		return scalar(boolT, Not(forallRange(bv, lo, hi, Not(body), pats)))
	case "forallref":
		// forallref(r, T, P): for every allocated non-nil reference r of pointer type *T
		argn(3)
		id := x.Args[0].(*EIdent)
		t := fr.resolveType(sc, x.Args[1])
		if t == nil {
			cfail("unknown type in forallref")
		}
		bv, sc2 := fr.boundVar(sc, id.Name, types.NewPointer(t))
		body := fr.evalBool(sc2, x.Args[2])
		return scalar(boolT, Forall([]Term{bv}, body))
	case "bytesEq":
		// bytesEq(a, ai, b, bi, n): a[ai+k] == b[bi+k] for 0 <= k < n
		argn(5)
		a := fr.evalExpr(sc, x.Args[0])
		ai := fr.toIdx(fr.evalExpr(sc, x.Args[1]))
		b := fr.evalExpr(sc, x.Args[2])
		bi := fr.toIdx(fr.evalExpr(sc, x.Args[3]))
		n := fr.toIdx(fr.evalExpr(sc, x.Args[4]))
		return scalar(boolT, fr.bytesEq(sc, a, ai, b, bi, n))
	case "BE16":
		argn(2)
		b := fr.evalExpr(sc, x.Args[0])
		i := fr.toIdx(fr.evalExpr(sc, x.Args[1]))
		b0 := fr.byteAt(sc, b, i)
		b1 := fr.byteAt(sc, b, IAdd(i, IntT(1)))
		return scalar(types.Typ[types.Uint16], app(BVSort(16), "concat", b0, b1))
	case "BE32":
		argn(2)
		b := fr.evalExpr(sc, x.Args[0])
		i := fr.toIdx(fr.evalExpr(sc, x.Args[1]))
		var bs []Term
		for k := int64(0); k < 4; k++ {
			bs = append(bs, fr.byteAt(sc, b, IAdd(i, IntT(k))))
		}
		return scalar(types.Typ[types.Uint32], app(BVSort(32), "concat", bs...))
	case "BE64":
		argn(2)
		b := fr.evalExpr(sc, x.Args[0])
		i := fr.toIdx(fr.evalExpr(sc, x.Args[1]))
		var bs []Term
		for k := int64(0); k < 8; k++ {
			bs = append(bs, fr.byteAt(sc, b, IAdd(i, IntT(k))))
		}
		return scalar(types.Typ[types.Uint64], app(BVSort(64), "concat", bs...))
	case "fresh":
		// fresh(x): x's object was allocated during this call
		argn(1)
		v := fr.evalExpr(sc, x.Args[0])
		if sc.old == nil {
			cfail("fresh() needs a pre-state")
		}
		return scalar(boolT, And(Not(Eq(v.C[0], Nil)), fr.isFreshSince(fr.refOf(v), sc.old.alloc)))
	case "final":
		// final(x): the value of local variable x at the return (postconditions only)
		argn(1)
		id, ok := x.Args[0].(*EIdent)
		if !ok {
			cfail("final() expects a local variable name")
		}
		v, ok := fr.lookupLocal(sc, id.Name)
		if !ok {
			cfail("final(%s): no such local", id.Name)
		}
		return v
	case "loopOld":
		// loopOld(e): the value of e when the enclosing loop was entered
		argn(1)
		if sc.loopEntry == nil {
			cfail("loopOld() outside a loop clause")
		}
		n := *sc
		n.st = sc.loopEntry
		return fr.evalExpr(&n, x.Args[0])
	case "loopFresh":
		// loopFresh(x): x's object was allocated after the enclosing loop was entered
		argn(1)
		v := fr.evalExpr(sc, x.Args[0])
		if sc.loopAlloc.S == "" {
			cfail("loopFresh() outside a loop clause")
		}
		return scalar(boolT, And(Not(Eq(v.C[0], Nil)), fr.isFreshSince(fr.refOf(v), sc.loopAlloc)))
	case "attr":
		// attr(name, x): ghost boolean attribute of x's object
		argn(2)
		id, ok := x.Args[0].(*EIdent)
		if !ok {
			cfail("attr(name, x): name must be an identifier")
		}
		if _, ok := fr.en.CS.Attrs[id.Name]; !ok {
			cfail("attr %s is not declared (//@ attr %s)", id.Name, id.Name)
		}
		v := fr.evalExpr(sc, x.Args[1])
		h := fr.heap(sc.st, "R:"+id.Name, ArrSort(SInt, SBool))
		return scalar(boolT, Select(h, fr.refOf(v)))
	case "capturesLoopVar":
		// capturesLoopVar(x): the function literal being spawned inside a loop captures the spawner's variable x
		// and x is declared OUTSIDE that loop, so every iteration's goroutine shares one x with the iterations
		// that follow (which overwrite it)
		argn(1)
		id, ok := x.Args[0].(*EIdent)
		if !ok {
			cfail("capturesLoopVar: a variable name is expected")
		}
		return scalar(boolT, boolTerm(fr.top.goCapStale[id.Name]))
	case "capturesVar":
		// capturesVar(x): the function literal being spawned (callsite go:) captures the spawner's variable x
		// itself (by reference), so both goroutines can access it
		argn(1)
		id, ok := x.Args[0].(*EIdent)
		if !ok {
			cfail("capturesVar: a variable name is expected")
		}
		return scalar(boolT, boolTerm(fr.top.goCapVars[id.Name]))
	case "captures":
		// captures(x): the goroutine being spawned (callsite go:) receives a reference to x's object,
		// as an argument or in a captured variable
		argn(1)
		v := fr.evalExpr(sc, x.Args[0])
		r := fr.refOf(v)
		alts := []Term{False}
		for _, c := range fr.top.goCaps {
			if v.T == nil || mayAlias(c.T, v.T) {
				alts = append(alts, Eq(c.C, r))
			}
		}
		return scalar(boolT, And(Not(Eq(r, Nil)), Or(alts...)))
	case "allocated":
		argn(1)
		v := fr.evalExpr(sc, x.Args[0])
		return scalar(boolT, fr.allocated(sc.st, fr.refOf(v)))
	case "within":
		// within(s, base): s is a sub-slice base[i:j] of base for some 0 <= i <= j <= len(base)
		argn(2)
		s := fr.evalExpr(sc, x.Args[0])
		b := fr.evalExpr(sc, x.Args[1])
		return scalar(boolT, And(Eq(s.Obj(), b.Obj()), ILe(b.Off(), s.Off()), ILe(IAdd(s.Off(), s.Len()), IAdd(b.Off(), b.Len()))))
	case "sameSlice":
		// sameSlice(s, base, lo, hi): s is exactly base[lo:hi]
		argn(4)
		s := fr.evalExpr(sc, x.Args[0])
		b := fr.evalExpr(sc, x.Args[1])
		lo := fr.toIdx(fr.evalExpr(sc, x.Args[2]))
		hi := fr.toIdx(fr.evalExpr(sc, x.Args[3]))
		return scalar(boolT, And(Eq(s.Obj(), b.Obj()), Eq(s.Off(), IAdd(b.Off(), lo)), Eq(s.Len(), ISub(hi, lo))))
	case "sameObj":
		argn(2)
		a := fr.evalExpr(sc, x.Args[0])
		b := fr.evalExpr(sc, x.Args[1])
		return scalar(boolT, Eq(fr.refOf(a), fr.refOf(b)))
	case "typeIs":
		// typeIs(x, T): the dynamic type of interface value x is *T (or T)
		argn(2)
		v := fr.evalExpr(sc, x.Args[0])
		var t types.Type
		if st, ok := x.Args[1].(*EUn); ok && st.Op == "*" {
			if bt := fr.resolveType(sc, st.X); bt != nil {
				t = types.NewPointer(bt)
			}
		} else {
			t = fr.resolveType(sc, x.Args[1])
		}
		if t == nil {
			cfail("unknown type in typeIs")
		}
		return scalar(boolT, Eq(v.C[0], IntT(int64(fr.en.typeTag(t)))))
	case "ptrOf":
		// ptrOf(x, T): the pointer held by interface value x, as *T
		argn(2)
		v := fr.evalExpr(sc, x.Args[0])
		t := fr.resolveType(sc, x.Args[1])
		if t == nil {
			cfail("unknown type in ptrOf")
		}
		return scalar(types.NewPointer(t), v.C[1])
	case "padArray":
		// padArray(s, N): the [N]byte value holding s's bytes followed by zeros (Go: var k [N]byte; copy(k[:], s))
		// padArray(s, N, p): additionally byte p holds byte(len(s))
		if len(x.Args) != 2 && len(x.Args) != 3 {
			cfail("padArray expects 2 or 3 arguments")
		}
		sv := fr.evalExpr(sc, x.Args[0])
		nv := fr.evalExpr(sc, x.Args[1])
		if nv.K != KConst {
			cfail("padArray: constant size expected")
		}
		n := nv.Big.(*bigInt).v.Int64()
		arr := fr.ctx.Fresh("pad", ArrSort(SInt, SBV8))
		fr.top.nbound++
		j := Term{fmt.Sprintf("j!q%d", fr.top.nbound), SInt}
		lim := Ite(ILe(sv.Len(), IntT(n)), sv.Len(), IntT(n))
		inner := Ite(InRange(j, IntT(0), lim), fr.byteAt(sc, sv, j), BV(0, 8))
		if len(x.Args) == 3 {
			pv := fr.evalExpr(sc, x.Args[2])
			if pv.K != KConst {
				cfail("padArray: constant position expected")
			}
			inner = Ite(Eq(j, IntBig(pv.Big.(*bigInt).v)), Int2BV(sv.Len(), 8), inner)
		}
		fr.ctx.Assume(Forall([]Term{j}, Eq(Select(arr, j), inner), Select(arr, j)))
		return Val{K: KNormal, T: types.NewArray(types.Typ[types.Uint8], n), C: []Term{arr}}
	case "keyOf":
		// keyOf(m, x): x as a key of map m
		argn(2)
		mv := fr.evalExpr(sc, x.Args[0])
		mt, ok := mv.T.Underlying().(*types.Map)
		if !ok {
			cfail("keyOf() on non-map")
		}
		kv := fr.evalExpr(sc, x.Args[1])
		return Val{K: KKey, T: mt.Key(), C: []Term{fr.mapKey(sc.st, mt, fr.coerceTo(kv, mt.Key()))}}
	case "forallkey":
		// forallkey(k, m, P): for every possible key k of map m
		argn(3)
		id, ok := x.Args[0].(*EIdent)
		if !ok {
			cfail("forallkey: identifier expected")
		}
		mv := fr.evalExpr(sc, x.Args[1])
		mt, ok := mv.T.Underlying().(*types.Map)
		if !ok {
			cfail("forallkey() on non-map")
		}
		fr.top.nbound++
		bv := Term{fmt.Sprintf("%s!q%d", id.Name, fr.top.nbound), fr.mapKeySort(mt)}
		kv := Val{K: KKey, T: mt.Key(), C: []Term{bv}}
		if isInteger(mt.Key()) {
			kv = scalar(mt.Key(), bv) // integer keys are their own key terms: usable in arithmetic
		} else if _, isPtr := mt.Key().Underlying().(*types.Pointer); isPtr && bv.Sort == SInt {
			kv = scalar(mt.Key(), bv) // pointer keys are references: fields can be selected
		}
		body := fr.evalBool(sc.with(id.Name, kv), x.Args[2])
		return scalar(boolT, Forall([]Term{bv}, body))
	case "rootObj":
		// rootObj(x): x's object is an allocation of its own (not an array embedded in a struct)
		argn(1)
		v := fr.evalExpr(sc, x.Args[0])
		return scalar(boolT, Eq(fr.top.dotFld(fr.refOf(v)), IntT(0)))
	case "objKept":
		// objKept(s): the whole backing object of slice s (as it was in the pre-state) has its old content
		argn(1)
		if sc.old == nil {
			cfail("objKept() needs a pre-state")
		}
		osc := *sc
		osc.st = sc.old
		v := fr.evalExpr(&osc, x.Args[0])
		sl, ok := v.T.Underlying().(*types.Slice)
		if !ok {
			cfail("objKept(%s): not a slice", ExprString(x.Args[0]))
		}
		var cs []Term
		for k := range fr.en.layout(sl.Elem()) {
			cs = append(cs, Eq(fr.objArray(sc.st, v.Obj(), sl.Elem(), k), fr.objArray(sc.old, v.Obj(), sl.Elem(), k)))
		}
		return scalar(boolT, Or(Eq(v.Obj(), Nil), And(cs...)))
	case "rootBytesKept":
		// rootBytesKept(): the byte content of every root object is what it was in the pre-state
		argn(0)
		if sc.old == nil {
			cfail("rootBytesKept() needs a pre-state")
		}
		fr.top.nbound++
		o := Term{fmt.Sprintf("o!q%d", fr.top.nbound), SInt}
		hn := elemHeap(types.Typ[types.Uint8], "")
		now := fr.heap(sc.st, hn, byteHeapSort)
		was := fr.heap(sc.old, hn, byteHeapSort)
		return scalar(boolT, Forall([]Term{o}, Implies(And(Not(Eq(o, Nil)), Eq(fr.top.dotFld(o), IntT(0))), Eq(Select(now, o), Select(was, o)))))
	case "dynNonNil":
		// dynNonNil(x): the interface value x is not nil and does not hold a nil pointer
		argn(1)
		v := fr.evalExpr(sc, x.Args[0])
		return scalar(boolT, And(Not(Eq(v.C[0], IntT(0))), Not(Eq(v.C[1], Nil))))
	case "has":
		// has(m, k): key present in map
		argn(2)
		m := fr.evalExpr(sc, x.Args[0])
		mt, ok := m.T.Underlying().(*types.Map)
		if !ok {
			cfail("has() on non-map")
		}
		k := fr.mapKey(sc.st, mt, fr.coerceTo(fr.evalExpr(sc, x.Args[1]), mt.Key()))
		return scalar(boolT, fr.mapHas(sc.st, m.Term(), mt, m.T, k))
	}
	// type conversion?
	if t := fr.resolveType(sc, x.Fun); t != nil && len(x.Args) == 1 {
		v := fr.evalExpr(sc, x.Args[0])
		return fr.convertVal(v, t)
	}
	// spec function
	if sf, ok := fr.en.CS.Specs[name]; ok {
		return fr.applySpec(sc, sf, x)
	}
	cfail("unknown function %s in contract", ExprString(x.Fun))
	return Val{}
}

func (fr *Frame) refOf(v Val) Term {
	if v.K != KNormal {
		cfail("reference of unsupported value")
	}
	switch v.T.Underlying().(type) {
	case *types.Interface:
		return v.C[1]
	}
	return v.C[0]
}

func (fr *Frame) convertVal(v Val, t types.Type) Val {
	if v.K == KConst {
		return fr.coerceTo(v, t)
	}
	if isInteger(t) && v.K == KNormal && len(v.C) == 1 && isInteger(v.T) {
		return fr.convInt(v, v.T, t)
	}
	if isFloat(t) && v.K == KNormal && len(v.C) == 1 && v.T != nil && (isInteger(v.T) || isFloat(v.T)) {
		return fr.floatConv(nil, v, v.T, t) // same uninterpreted functions as the code's conversions
	}
	// same-layout conversion (named types)
	if len(fr.en.layout(t)) == len(v.C) {
		o := v
		o.T = t
		return o
	}
	cfail("unsupported conversion to %v", t)
	return Val{}
}

func (fr *Frame) byteAt(sc *Scope, b Val, i Term) Term {
	if at, ok := ptrToArray(b); ok {
		return fr.loadElem(sc.st, b.Term(), i, at.Elem(), 0, -1, at.Elem()).Term()
	}
	if _, ok := b.T.Underlying().(*types.Array); ok {
		return Select(b.C[0], i)
	}
	return fr.loadElem(sc.st, b.Obj(), IAdd(b.Off(), i), types.Typ[types.Uint8], 0, -1, types.Typ[types.Uint8]).Term()
}

// byteAtBase reads b[base+k] with the index built as (off+base)+k.
func (fr *Frame) byteAtBase(sc *Scope, b Val, base, k Term) Term {
	if at, ok := ptrToArray(b); ok {
		return fr.loadElem(sc.st, b.Term(), IAdd(base, k), at.Elem(), 0, -1, at.Elem()).Term()
	}
	if _, ok := b.T.Underlying().(*types.Array); ok {
		return Select(b.C[0], IAdd(base, k))
	}
	return fr.loadElem(sc.st, b.Obj(), IAdd(IAdd(b.Off(), base), k), types.Typ[types.Uint8], 0, -1, types.Typ[types.Uint8]).Term()
}

func (fr *Frame) bytesEq(sc *Scope, a Val, ai Term, b Val, bi Term, n Term) Term {
	fr.top.nbound++
	k := Term{fmt.Sprintf("k!q%d", fr.top.nbound), SInt}
	x := fr.byteAtBase(sc, a, ai, k)
	y := fr.byteAtBase(sc, b, bi, k)
	return forallRange(k, IntT(0), n, Eq(x, y), nil)
}

func (fr *Frame) applySpec(sc *Scope, sf *SpecFunc, x *ECall) Val {
	if len(x.Args) != len(sf.Params) {
		cfail("spec function %s expects %d arguments", sf.Name, len(sf.Params))
	}
	var args []Val
	dsc := sc // types in the signature resolve in the package that declares the spec function
	if p := fr.en.typesPkg(sf.PkgPath); p != nil && p != sc.pkg {
		n := *sc
		n.pkg = p
		dsc = &n
	}
	for i, a := range x.Args {
		v := fr.evalExpr(sc, a)
		if t := fr.resolveTypeStr(dsc, sf.PTypes[i]); t != nil {
			v = fr.coerceTo(v, t)
			if v.K == KNormal && len(v.C) == 1 && isInteger(t) && sortWidth(v.C[0].Sort) > 0 {
				v = fr.convertVal(v, t)
			}
		}
		args = append(args, v)
	}
	if sf.Body != nil {
		n := *sc
		if p := fr.en.typesPkg(sf.PkgPath); p != nil {
			n.pkg = p // names in the body resolve in the package that declares the spec function
		}
		n.vars = make(map[string]Val, len(sc.vars)+len(args))
		for k, v := range sc.vars {
			n.vars[k] = v
		}
		for i, p := range sf.Params {
			n.vars[p] = args[i]
		}
		return fr.evalExpr(&n, sf.Body)
	}
	// uninterpreted
	rt := fr.resolveTypeStr(dsc, sf.RType)
	if rt == nil {
		cfail("unknown result type %s of spec function %s", sf.RType, sf.Name)
	}
	var sorts []string
	var ts []Term
	for _, a := range args {
		if a.K != KNormal {
			cfail("uninterpreted spec function %s: unsupported argument", sf.Name)
		}
		if isByteSlice(a.T) || isString(a.T) {
			// a byte string argument is passed by content: (array, offset, length)
			h := fr.heap(sc.st, elemHeap(types.Typ[types.Uint8], ""), byteHeapSort)
			for _, t := range []Term{Select(h, a.Obj()), a.Off(), a.Len()} {
				sorts = append(sorts, t.Sort)
				ts = append(ts, t)
			}
			continue
		}
		for _, t := range a.C {
			sorts = append(sorts, t.Sort)
			ts = append(ts, t)
		}
	}
	lay := fr.en.layout(rt)
	if len(lay) == 1 {
		rs := lay[0].Sort
		f := fr.ctx.Func("spec:"+sf.Name, sorts, rs)
		return scalar(rt, app(rs, f, ts...))
	}
	// a struct-valued result: one uninterpreted function per component
	out := Val{K: KNormal, T: rt, C: make([]Term, len(lay))}
	for k, c := range lay {
		f := fr.ctx.Func(fmt.Sprintf("spec:%s.%d", sf.Name, k), sorts, c.Sort)
		out.C[k] = app(c.Sort, f, ts...)
	}
	return out
}

// resolveTypeStr resolves a simple type name; composite types ([]T, *T) give nil (no coercion).
func (fr *Frame) resolveTypeStr(sc *Scope, s string) types.Type {
	e, err := ParseExpr(s)
	if err != nil {
		return nil
	}
	return fr.resolveType(sc, e)
}

func mustParseType(s string) Expr {
	e, err := ParseExpr(s)
	if err != nil {
		cfail("bad type %q", s)
	}
	return e
}

// addIdx builds base+i, re-associating (base + (a + b)) to ((base + a) + b) so that a
// bound variable in the last position can be normalised away (see normaliseQuant).
func addIdx(base, i Term) Term {
	if strings.HasPrefix(i.S, "(+ ") {
		t := parseSx(i.S)
		if len(t.kids) == 3 {
			a := Term{t.kids[1].String(), i.Sort}
			b := Term{t.kids[2].String(), i.Sort}
			return IAdd(IAdd(base, a), b)
		}
	}
	return IAdd(base, i)
}

// ptrTypesDiffer: both values are pointers to different named struct types.
func ptrTypesDiffer(a, b Val) bool {
	if a.K != KNormal || b.K != KNormal || a.T == nil || b.T == nil || a.Nav || b.Nav {
		return false
	}
	pa, ok1 := a.T.Underlying().(*types.Pointer)
	pb, ok2 := b.T.Underlying().(*types.Pointer)
	if !ok1 || !ok2 {
		return false
	}
	_, s1 := pa.Elem().Underlying().(*types.Struct)
	_, s2 := pb.Elem().Underlying().(*types.Struct)
	return s1 && s2 && !types.Identical(pa.Elem(), pb.Elem())
}
