package vc

import (
	"fmt"
	"go/types"
	"math/big"
	"strings"
)

// ----- naming ---------------------------------------------------------------

func (en *Engine) structName(t types.Type) string {
	if p, ok := t.(*types.Pointer); ok {
		t = p.Elem()
	}
	return typeName(t)
}

func (en *Engine) fieldID(sname string, i int) int {
	k := fmt.Sprintf("%s#%d", sname, i)
	if id, ok := en.fieldIDs[k]; ok {
		return id
	}
	id := len(en.fieldIDs) + 1
	en.fieldIDs[k] = id
	return id
}

func (en *Engine) typeTag(t types.Type) int {
	k := types.TypeString(t, nil)
	if id, ok := en.typeTags[k]; ok {
		return id
	}
	id := len(en.typeTags) + 1
	en.typeTags[k] = id
	en.tagTypes[id] = t
	return id
}

// ----- allocation -------------------------------------------------------------

func (t *Top) stamp(r Term) Term {
	f := t.ctx.Func("stamp", []string{SInt}, SInt)
	return Term{"(" + f + " " + r.S + ")", SInt}
}

func (t *Top) dotFld(r Term) Term {
	f := t.ctx.Func("dot_fld", []string{SInt}, SInt)
	return Term{"(" + f + " " + r.S + ")", SInt}
}

func (t *Top) dot(r Term, fid int) Term {
	f := t.ctx.Func("dot", []string{SInt, SInt}, SInt)
	if !t.usesDot {
		t.usesDot = true
		b := t.ctx.Func("dot_base", []string{SInt}, SInt)
		fl := t.ctx.Func("dot_fld", []string{SInt}, SInt)
		st := t.ctx.Func("stamp", []string{SInt}, SInt)
		t.ctx.Raw("dot-axioms", fmt.Sprintf(
			"(assert (forall ((r Int) (f Int)) (! (and (= (%s (%s r f)) r) (= (%s (%s r f)) f) (= (%s (%s r f)) (%s r)) (not (= (%s r f) 0))) :pattern ((%s r f)))))",
			b, f, fl, f, st, f, st, f, f))
	}
	return Term{fmt.Sprintf("(%s %s %d)", f, r.S, fid), SInt}
}

// newObject allocates a fresh object reference.
func (fr *Frame) newObject(st *State, prefix string) Term {
	x := fr.ctx.Fresh(prefix, SInt)
	// a freshly allocated object is a root (not a field/array embedded in another object)
	fr.assume(st, And(Eq(fr.top.stamp(x), st.alloc), Not(Eq(x, Nil)), Eq(fr.top.dotFld(x), IntT(0))))
	st.alloc = fr.ctx.Def("alloc", IntAdd(st.alloc, IntT(1)))
	return x
}

func (fr *Frame) allocated(st *State, r Term) Term {
	return IntCmp("<", fr.top.stamp(r), st.alloc)
}

// isFresh: allocated at or after the given allocation counter value.
func (fr *Frame) isFreshSince(r Term, alloc Term) Term {
	return IntCmp(">=", fr.top.stamp(r), alloc)
}

const maxObj = int64(1) << 48

var minI64 = IntBig(new(big.Int).Neg(two63))
var maxI64 = IntBig(new(big.Int).Sub(two63, big.NewInt(1)))
var maxU64 = IntBig(new(big.Int).Sub(two64, big.NewInt(1)))

// assumeWF assumes the representation invariants of a value of static type v.T.
func (fr *Frame) assumeWF(st *State, v Val) {
	if v.K != KNormal {
		return
	}
	var conj []Term
	fr.wfTerms(st, v.T, v.C, &conj, 0)
	if len(conj) > 0 {
		fr.assume(st, And(conj...))
	}
}

func (fr *Frame) wfTerms(st *State, t types.Type, c []Term, out *[]Term, depth int) {
	if n, ok := types.Unalias(t).(*types.Named); ok && len(fr.en.CS.TypeInvs) > 0 && n.Obj().Pkg() != nil && !fr.inTypeInv {
		for _, ti := range fr.en.CS.TypeInvs {
			if ti.PkgPath != n.Obj().Pkg().Path() || ti.Elem != n.Obj().Name() {
				continue
			}
			if fr.fn != nil && fr.fn.Pkg != nil && fr.fn.Pkg.Pkg.Path() == ti.PkgPath {
				continue // inside the package the invariant may be temporarily broken
			}
			fr.inTypeInv = true
			sc := &Scope{fr: fr, st: st, old: st, vars: map[string]Val{"v": {K: KNormal, T: t, C: c}}, entry: map[string]Val{}, pkg: n.Obj().Pkg()}
			*out = append(*out, fr.evalBool(sc, ti.E))
			fr.inTypeInv = false
			fr.top.trusted["representation invariant of "+ti.PkgPath+"."+ti.Elem+" assumed of every value met outside the package: "+strings.TrimSpace(ti.Text[strings.Index(ti.Text, ":")+1:])] = true
		}
	}
	switch u := t.Underlying().(type) {
	case *types.Basic:
		if isString(t) {
			*out = append(*out, fr.allocated(st, c[0]),
				ILe(IntT(0), c[1]), ILe(c[1], IntT(maxObj)),
				ILe(IntT(0), c[2]), ILe(c[2], IntT(maxObj)),
				Implies(Eq(c[0], Nil), Eq(c[2], IntT(0))))
		} else if isWide(t) {
			if isSigned(t) {
				*out = append(*out, ILe(minI64, c[0]), ILe(c[0], maxI64))
			} else {
				*out = append(*out, ILe(IntT(0), c[0]), ILe(c[0], maxU64))
			}
		}
		if u.Kind() == types.UnsafePointer {
			*out = append(*out, fr.allocated(st, c[0]))
		}
	case *types.Pointer, *types.Map, *types.Chan:
		*out = append(*out, fr.allocated(st, c[0]), ILe(IntT(0), c[0]))
	case *types.Slice:
		// slice objects have non-negative ids; string constants live at negative ids, so a
		// (mutable) slice never aliases constant string data
		*out = append(*out, fr.allocated(st, c[0]), ILe(IntT(0), c[0]),
			ILe(IntT(0), c[1]), ILe(c[1], IntT(maxObj)),
			ILe(IntT(0), c[2]), ILe(c[2], c[3]),
			ILe(c[3], IntT(maxObj)),
			Implies(Eq(c[0], Nil), And(Eq(c[3], IntT(0)), Eq(c[1], IntT(0)))))
	case *types.Interface:
		*out = append(*out, fr.allocated(st, c[1]), IntCmp(">=", c[0], IntT(0)),
			Implies(Eq(c[0], IntT(0)), Eq(c[1], Nil)))
	case *types.Struct:
		off := 0
		for i := 0; i < u.NumFields(); i++ {
			n := len(fr.en.layout(u.Field(i).Type()))
			fr.wfTerms(st, u.Field(i).Type(), c[off:off+n], out, depth+1)
			off += n
		}
	}
}

// ----- struct fields ---------------------------------------------------------

func fieldHeapName(sname, fname, path string) string { return "F:" + sname + "." + fname + path }

// subRef returns the reference of the nested struct/array field i of the struct at ref.
func (fr *Frame) subRef(ref Term, sname string, stt *types.Struct, i int) Term {
	ft := stt.Field(i).Type()
	if _, ok := ft.Underlying().(*types.Struct); ok && i == 0 {
		return ref // a struct at offset 0 shares its parent's address
	}
	return fr.top.dot(ref, fr.en.fieldID(sname, i))
}

func (fr *Frame) loadField(st *State, ref Term, sname string, stt *types.Struct, i int) Val {
	f := stt.Field(i)
	ft := f.Type()
	switch u := ft.Underlying().(type) {
	case *types.Struct:
		return fr.loadStruct(st, fr.subRef(ref, sname, stt, i), ft)
	case *types.Array:
		return fr.loadArray(st, fr.subRef(ref, sname, stt, i), ft, u)
	}
	l := fr.en.layout(ft)
	v := Val{K: KNormal, T: ft, C: make([]Term, len(l))}
	for k, c := range l {
		h := fr.heap(st, fieldHeapName(sname, f.Name(), c.Path), ArrSort(SInt, c.Sort))
		v.C[k] = Select(h, ref)
	}
	return v
}

func (fr *Frame) storeField(st *State, ref Term, sname string, stt *types.Struct, i int, v Val) {
	f := stt.Field(i)
	ft := f.Type()
	switch u := ft.Underlying().(type) {
	case *types.Struct:
		fr.storeStruct(st, fr.subRef(ref, sname, stt, i), ft, v)
		return
	case *types.Array:
		fr.storeArray(st, fr.subRef(ref, sname, stt, i), u, v)
		return
	}
	l := fr.en.layout(ft)
	if v.K != KNormal || len(v.C) != len(l) {
		panic(unsupported(fmt.Sprintf("store of %v into field %s.%s", v.K, sname, f.Name())))
	}
	for k, c := range l {
		hn := fieldHeapName(sname, f.Name(), c.Path)
		h := fr.heap(st, hn, ArrSort(SInt, c.Sort))
		fr.setHeap(st, hn, Store(h, ref, v.C[k]))
	}
}

func (fr *Frame) loadStruct(st *State, ref Term, t types.Type) Val {
	stt := t.Underlying().(*types.Struct)
	sname := typeName(t)
	out := Val{K: KNormal, T: t}
	for i := 0; i < stt.NumFields(); i++ {
		fv := fr.loadField(st, ref, sname, stt, i)
		out.C = append(out.C, fv.C...)
	}
	return out
}

func (fr *Frame) storeStruct(st *State, ref Term, t types.Type, v Val) {
	stt := t.Underlying().(*types.Struct)
	sname := typeName(t)
	if v.K != KNormal {
		panic(unsupported("store of non-normal struct value"))
	}
	for i := 0; i < stt.NumFields(); i++ {
		lo, hi := fr.en.fieldRange(stt, i)
		fr.storeField(st, ref, sname, stt, i, Val{K: KNormal, T: stt.Field(i).Type(), C: v.C[lo:hi]})
	}
}

// ----- element memory ---------------------------------------------------------

func elemHeap(et types.Type, path string) string { return "M:" + elemHeapName(et) + path }

func (fr *Frame) loadArray(st *State, ref Term, t types.Type, at *types.Array) Val {
	l := fr.en.layout(at.Elem())
	v := Val{K: KNormal, T: t, C: make([]Term, len(l))}
	for k, c := range l {
		h := fr.heap(st, elemHeap(at.Elem(), c.Path), ArrSort(SInt, ArrSort(SInt, c.Sort)))
		v.C[k] = Select(h, ref)
	}
	return v
}

func (fr *Frame) storeArray(st *State, ref Term, at *types.Array, v Val) {
	l := fr.en.layout(at.Elem())
	if v.K != KNormal || len(v.C) != len(l) {
		panic(unsupported("store of array value with unexpected layout"))
	}
	for k, c := range l {
		hn := elemHeap(at.Elem(), c.Path)
		h := fr.heap(st, hn, ArrSort(SInt, ArrSort(SInt, c.Sort)))
		fr.setHeap(st, hn, Store(h, ref, v.C[k]))
	}
}

// loadElem loads components [lo,hi) of the element at absolute index idx of object obj.
func (fr *Frame) loadElem(st *State, obj, idx Term, et types.Type, lo, hi int, rt types.Type) Val {
	l := fr.en.layout(et)
	if hi < 0 {
		lo, hi = 0, len(l)
	}
	v := Val{K: KNormal, T: rt}
	for k := lo; k < hi; k++ {
		c := l[k]
		h := fr.heap(st, elemHeap(et, c.Path), ArrSort(SInt, ArrSort(SInt, c.Sort)))
		v.C = append(v.C, Select(Select(h, obj), idx))
	}
	return v
}

func (fr *Frame) storeElem(st *State, obj, idx Term, et types.Type, lo, hi int, v Val) {
	v = fr.opaque(st, v)
	l := fr.en.layout(et)
	if hi < 0 {
		lo, hi = 0, len(l)
	}
	if v.K != KNormal || len(v.C) != hi-lo {
		panic(unsupported(fmt.Sprintf("store of %v into element of %s", v.K, et)))
	}
	for k := lo; k < hi; k++ {
		c := l[k]
		hn := elemHeap(et, c.Path)
		h := fr.heap(st, hn, ArrSort(SInt, ArrSort(SInt, c.Sort)))
		fr.setHeap(st, hn, Store(h, obj, Store(Select(h, obj), idx, v.C[k-lo])))
	}
}

// objArray returns the content array of component k for an object.
func (fr *Frame) objArray(st *State, obj Term, et types.Type, k int) Term {
	c := fr.en.layout(et)[k]
	h := fr.heap(st, elemHeap(et, c.Path), ArrSort(SInt, ArrSort(SInt, c.Sort)))
	return Select(h, obj)
}

func (fr *Frame) setObjArray(st *State, obj Term, et types.Type, k int, arr Term) {
	c := fr.en.layout(et)[k]
	hn := elemHeap(et, c.Path)
	h := fr.heap(st, hn, ArrSort(SInt, ArrSort(SInt, c.Sort)))
	fr.setHeap(st, hn, Store(h, obj, arr))
}

// ----- boxes (heap cells for non-struct values) -------------------------------

func boxHeap(t types.Type, path string) string { return "B:" + typeName(t) + path }

func (fr *Frame) loadBox(st *State, ref Term, t types.Type) Val {
	l := fr.en.layout(t)
	v := Val{K: KNormal, T: t, C: make([]Term, len(l))}
	for k, c := range l {
		v.C[k] = Select(fr.heap(st, boxHeap(t, c.Path), ArrSort(SInt, c.Sort)), ref)
	}
	return v
}

func (fr *Frame) storeBox(st *State, ref Term, t types.Type, v Val) {
	l := fr.en.layout(t)
	if v.K != KNormal || len(v.C) != len(l) {
		panic(unsupported("store into box of non-normal value"))
	}
	for k, c := range l {
		hn := boxHeap(t, c.Path)
		fr.setHeap(st, hn, Store(fr.heap(st, hn, ArrSort(SInt, c.Sort)), ref, v.C[k]))
	}
}

// ----- generic load/store through a pointer value -----------------------------

func (fr *Frame) load(st *State, p Val, t types.Type) Val {
	switch p.K {
	case KCellPtr:
		v, ok := st.cells[p.Cell]
		if !ok {
			panic(unsupported("read of undefined cell"))
		}
		return v
	case KFieldPtr:
		stt := p.SType.Underlying().(*types.Struct)
		v := fr.loadField(st, p.Base, p.SName, stt, p.Field)
		fr.assumeWF(st, v)
		return v
	case KElemPtr:
		v := fr.loadElem(st, p.Base, p.Idx, p.ElemT, p.CLo, p.CHi, t)
		fr.assumeWF(st, v)
		return v
	case KBoxPtr:
		v := fr.loadBox(st, p.Base, t)
		fr.assumeWF(st, v)
		return v
	case KGlobalPtr:
		return fr.loadGlobal(st, p)
	case KNormal:
		// pointer to struct or array
		switch u := t.Underlying().(type) {
		case *types.Struct:
			v := fr.loadStruct(st, p.Term(), t)
			fr.assumeWF(st, v)
			return v
		case *types.Array:
			return fr.loadArray(st, p.Term(), t, u)
		}
		// opaque pointer to a non-struct value: box
		v := fr.loadBox(st, p.Term(), t)
		fr.assumeWF(st, v)
		return v
	}
	panic(unsupported(fmt.Sprintf("load through pointer kind %d", p.K)))
}

func (fr *Frame) store(st *State, p Val, t types.Type, v Val) {
	if p.K != KCellPtr {
		v = fr.opaque(st, v) // closures kept in the heap become opaque references
	}
	switch p.K {
	case KCellPtr:
		st.cells[p.Cell] = v
	case KFieldPtr:
		stt := p.SType.Underlying().(*types.Struct)
		fr.storeField(st, p.Base, p.SName, stt, p.Field, v)
	case KElemPtr:
		fr.storeElem(st, p.Base, p.Idx, p.ElemT, p.CLo, p.CHi, v)
	case KBoxPtr:
		fr.storeBox(st, p.Base, t, v)
	case KGlobalPtr:
		fr.storeGlobal(st, p, v)
	case KNormal:
		switch u := t.Underlying().(type) {
		case *types.Struct:
			fr.storeStruct(st, p.Term(), t, v)
		case *types.Array:
			fr.storeArray(st, p.Term(), u, v)
		default:
			fr.storeBox(st, p.Term(), t, v)
		}
	default:
		panic(unsupported(fmt.Sprintf("store through pointer kind %d", p.K)))
	}
}

// ptrNonNil returns the non-nil condition for a pointer value (True for cells).
func ptrNonNil(p Val) Term {
	switch p.K {
	case KFieldPtr, KElemPtr, KBoxPtr:
		return Not(Eq(p.Base, Nil))
	case KNormal:
		return Not(Eq(p.Term(), Nil))
	}
	return True
}

// ----- globals ------------------------------------------------------------------

func (fr *Frame) loadGlobal(st *State, p Val) Val {
	g := p.Glob
	t := g.Type().(*types.Pointer).Elem()
	name := g.Pkg.Pkg.Path() + "." + g.Name()
	l := fr.en.layout(t)
	// immutable error sentinels: distinct non-nil constants
	if fr.en.isErrorSentinel(g) {
		tag := fr.en.typeTag(types.NewPointer(types.Typ[types.Int])) // any stable non-zero tag
		ref := fr.ctx.Const("errsentinel:"+name, SInt)
		id := fr.en.sentinelID(name)
		fr.ctx.Raw("errsentinel-ax:"+name, fmt.Sprintf("(assert (= %s (- %d)))", ref.S, id+1000))
		return Val{K: KNormal, T: t, C: []Term{IntT(int64(tag)), ref}}
	}
	fr.en.computeImmutable(g.Pkg)
	if fr.en.neverWritten[g] && strings.HasPrefix(g.Pkg.Pkg.Path(), fr.en.ModulePath) && !fr.en.writtenAnywhere(g) {
		// never assigned anywhere in its package (its address is only loaded): the zero value
		fr.top.note("global " + name + " is never assigned in its package: zero value")
		return fr.en.zero(t)
	}
	v := Val{K: KNormal, T: t, C: make([]Term, len(l))}
	for k, c := range l {
		hn := "G:" + name + c.Path
		v.C[k] = fr.heap(st, hn, c.Sort)
	}
	fr.assumeWF(st, v)
	return v
}

func (fr *Frame) storeGlobal(st *State, p Val, v Val) {
	g := p.Glob
	t := g.Type().(*types.Pointer).Elem()
	name := g.Pkg.Pkg.Path() + "." + g.Name()
	l := fr.en.layout(t)
	if v.K != KNormal || len(v.C) != len(l) {
		panic(unsupported("store of non-normal value into global"))
	}
	for k, c := range l {
		hn := "G:" + name + c.Path
		fr.top.heapSorts[hn] = c.Sort
		st.heaps[hn] = v.C[k]
	}
}

// opaque turns a closure value into an opaque non-nil reference so that it can live in the
// heap (calling it later is a call of an unknown function).
func (fr *Frame) opaque(st *State, v Val) Val {
	if v.K != KClosure {
		return v
	}
	ref := fr.newObject(st, "closure")
	fr.top.closures[ref.S] = v
	return scalar(v.T, ref)
}
