package vc

import (
	"fmt"
	"go/token"
	"go/types"
	"math/big"

	"golang.org/x/tools/go/ssa"
)

var byteHeapSort = ArrSort(SInt, ArrSort(SInt, SBV8))

// ---------------------------------------------------------------------------------
// Integer model. Go's int, int64, uint, uintptr ("wide" types) are SMT Ints kept
// inside their 64-bit range: every arithmetic result is reduced with the exact
// wrap-around of the machine operation (wrapInt / wrapIntMod), so nothing is treated
// as mathematical that the machine does not compute. Narrow types (8/16/32 bits) and
// uint64 are bit-vectors. Conversions: narrow -> wide is bv2nat (or its signed form);
// wide -> narrow introduces the bit-vector b with bv2nat(b) == x mod 2^w.
// ---------------------------------------------------------------------------------

func typeWidth(t types.Type) int {
	w, _, _ := basicWidth(t.Underlying().(*types.Basic))
	return w
}

// toInt converts an integer value of Go type t to its mathematical value.
func toInt(x Term, t types.Type) Term {
	if x.Sort == SInt {
		return x
	}
	w := sortWidth(x.Sort)
	n := Bv2Nat(x)
	if isSigned(t) {
		msb := Term{fmt.Sprintf("(= ((_ extract %d %d) %s) #b1)", w-1, w-1, x.S), SBool}
		return Ite(msb, ISub(n, IntBig(new(big.Int).Lsh(big.NewInt(1), uint(w)))), n)
	}
	return n
}

// intToBV returns the w-bit vector of the integer x (x mod 2^w).
func (fr *Frame) intToBV(x Term, w int) Term { return Int2BV(x, w) }

// fromBV64 gives the wide-integer value of a 64-bit vector for type t.
func fromBV(x Term, t types.Type) Term { return toInt(x, t) }

func (fr *Frame) regOrConst(st *State, v ssa.Value) Term { return fr.val(st, v).Term() }

// floatOp: floating point arithmetic and ordering are uninterpreted functions of their operands (deterministic,
// no further axioms): enough to relate a value computed by the code to the same expression in a contract.
func (fr *Frame) floatOp(st *State, op token.Token, a, b Val, resT types.Type) Val {
	fr.top.note("floating point operation abstracted (uninterpreted function of its operands)")
	if a.K != KNormal || b.K != KNormal || len(a.C) != 1 || len(b.C) != 1 || a.C[0].Sort != "F64" || b.C[0].Sort != "F64" {
		if isBool(resT) {
			return scalar(resT, fr.ctx.Fresh("fcmp", SBool))
		}
		return scalar(resT, fr.ctx.Fresh("fop", "F64"))
	}
	x, y := a.C[0], b.C[0]
	app := func(f, ret string, p, q Term) Term {
		fn := fr.ctx.Func(f, []string{"F64", "F64"}, ret)
		return Term{fmt.Sprintf("(%s %s %s)", fn, p.S, q.S), ret}
	}
	switch op {
	case token.LSS:
		return scalar(resT, app("f64lt", SBool, x, y))
	case token.GTR:
		return scalar(resT, app("f64lt", SBool, y, x))
	case token.LEQ:
		return scalar(resT, app("f64le", SBool, x, y))
	case token.GEQ:
		return scalar(resT, app("f64le", SBool, y, x))
	case token.ADD:
		return scalar(resT, app("f64add", "F64", x, y))
	case token.SUB:
		return scalar(resT, app("f64sub", "F64", x, y))
	case token.MUL:
		return scalar(resT, app("f64mul", "F64", x, y))
	case token.QUO:
		return scalar(resT, app("f64quo", "F64", x, y))
	}
	if isBool(resT) {
		return scalar(resT, fr.ctx.Fresh("fcmp", SBool))
	}
	return scalar(resT, fr.ctx.Fresh("fop", "F64"))
}

// floatConv: conversions between integers and floats (and between float widths) as uninterpreted functions.
func (fr *Frame) floatConv(st *State, v Val, from, to types.Type) Val {
	kind := func(t types.Type) string { return t.Underlying().(*types.Basic).Name() }
	if v.K != KNormal || len(v.C) != 1 {
		nv := fr.fresh("fconv", to)
		fr.assumeWF(st, nv)
		return nv
	}
	switch {
	case isInteger(from) && isFloat(to):
		fn := fr.ctx.Func("i2f_"+kind(to), []string{SInt}, "F64")
		return scalar(to, Term{fmt.Sprintf("(%s %s)", fn, toInt(v.C[0], from).S), "F64"})
	case isFloat(from) && isFloat(to):
		if kind(from) == kind(to) || kind(to) == "float64" {
			o := v
			o.T = to
			return o
		}
		fn := fr.ctx.Func("f2f_"+kind(to), []string{"F64"}, "F64")
		return scalar(to, Term{fmt.Sprintf("(%s %s)", fn, v.C[0].S), "F64"})
	}
	// float -> integer: some value of the target type, a function of the operand
	fn := fr.ctx.Func("f2i_"+kind(to), []string{"F64"}, SInt)
	r := Term{fmt.Sprintf("(%s %s)", fn, v.C[0].S), SInt}
	if isWide(to) {
		nv := scalar(to, r)
		fr.assumeWF(st, nv) // the function's range is the target type (consistent: it is uninterpreted)
		return nv
	}
	nv := fr.fresh("fconv", to)
	fr.assume(st, Eq(toInt(nv.C[0], to), r)) // likewise: fixes the function's value to one of the type
	return nv
}

// altOf returns a bit-vector whose unsigned value equals the (non-negative) wide value.
func (fr *Frame) altOf(v Val) (Term, bool) {
	if v.Alt.S != "" {
		return v.Alt, true
	}
	if v.K == KNormal && len(v.C) == 1 {
		if n, ok := isIntLit(v.C[0]); ok && n >= 0 {
			w := 8
			for w < 64 && n >= int64(1)<<uint(w) {
				w *= 2
			}
			return BV(n, w), true
		}
	}
	return Term{}, false
}

func zext(a Term, w int) Term { return Resize(a, w, false) }

func (fr *Frame) binop(st *State, op token.Token, a, b Val, opT, resT types.Type, at ssa.Instruction) Val {
	switch op {
	case token.EQL, token.NEQ:
		eq := fr.valEq(st, a, b, opT)
		if op == token.NEQ {
			eq = Not(eq)
		}
		return scalar(resT, eq)
	}
	if isString(opT) {
		switch op {
		case token.ADD:
			return fr.stringConcat(st, a, b, resT)
		}
		panic(unsupported("string operator " + op.String()))
	}
	if isBool(opT) {
		x, y := a.Term(), b.Term()
		switch op {
		case token.AND, token.LAND:
			return scalar(resT, And(x, y))
		case token.OR, token.LOR:
			return scalar(resT, Or(x, y))
		}
		panic(unsupported("bool operator " + op.String()))
	}
	if !isInteger(opT) {
		if bt, ok := opT.Underlying().(*types.Basic); ok && bt.Info()&types.IsFloat != 0 {
			return fr.floatOp(st, op, a, b, resT)
		}
		panic(unsupported("binary operator " + op.String() + " on " + opT.String()))
	}
	pos := token.NoPos
	if at != nil {
		pos = at.Pos()
	}
	if isWide(opT) {
		return fr.wideOp(st, op, a, b, opT, resT, at, pos)
	}
	x, y := a.Term(), b.Term()
	signed := isSigned(opT)
	w := sortWidth(x.Sort)
	switch op {
	case token.ADD:
		return scalar(resT, BVOp("bvadd", x, y))
	case token.SUB:
		return scalar(resT, BVOp("bvsub", x, y))
	case token.MUL:
		return scalar(resT, BVOp("bvmul", x, y))
	case token.QUO, token.REM:
		if at != nil {
			fr.oblige(st, "div-by-zero", "", Not(Eq(y, BV(0, w))), nil, pos)
			fr.assume(st, Not(Eq(y, BV(0, w))))
		}
		o := map[bool]map[token.Token]string{true: {token.QUO: "bvsdiv", token.REM: "bvsrem"}, false: {token.QUO: "bvudiv", token.REM: "bvurem"}}[signed][op]
		return scalar(resT, BVOp(o, x, y))
	case token.AND:
		return scalar(resT, BVOp("bvand", x, y))
	case token.OR:
		return scalar(resT, BVOp("bvor", x, y))
	case token.XOR:
		return scalar(resT, BVOp("bvxor", x, y))
	case token.AND_NOT:
		return scalar(resT, BVOp("bvand", x, app(y.Sort, "bvnot", y)))
	case token.SHL, token.SHR:
		cnt := fr.shiftCount(st, b, w, at, pos)
		switch {
		case op == token.SHL:
			return scalar(resT, BVOp("bvshl", x, cnt))
		case signed:
			return scalar(resT, BVOp("bvashr", x, cnt))
		default:
			return scalar(resT, BVOp("bvlshr", x, cnt))
		}
	case token.LSS, token.LEQ, token.GTR, token.GEQ:
		m := map[token.Token][2]string{token.LSS: {"bvslt", "bvult"}, token.LEQ: {"bvsle", "bvule"}, token.GTR: {"bvsgt", "bvugt"}, token.GEQ: {"bvsge", "bvuge"}}[op]
		o := m[1]
		if signed {
			o = m[0]
		}
		return scalar(resT, BVCmp(o, x, y))
	}
	panic(unsupported("binary operator " + op.String()))
}

// shiftCount yields a w-bit shift count saturated at w (Go: counts >= width shift everything out).
func (fr *Frame) shiftCount(st *State, b Val, w int, at ssa.Instruction, pos token.Pos) Term {
	y := b.Term()
	if y.Sort == SInt {
		if at != nil && isSigned(b.T) {
			neg := ILt(y, IntT(0))
			if neg.S != "false" {
				fr.oblige(st, "negative-shift", "", Not(neg), nil, pos)
			}
		}
		if n, ok := isIntLit(y); ok {
			if n >= int64(w) {
				n = int64(w)
			}
			return BV(n, w)
		}
		// exact conversion of the small count: a case split over 0..w-1 (the uninterpreted bridge
		// cannot be evaluated by the solver for a symbolic count)
		cnt := BV(int64(w), w)
		for k := w - 1; k >= 0; k-- {
			cnt = Ite(Eq(y, IntT(int64(k))), BV(int64(k), w), cnt)
		}
		return fr.ctx.Def("shcnt", cnt)
	}
	yw := sortWidth(y.Sort)
	if at != nil && isSigned(b.T) {
		neg := BVCmp("bvslt", y, BV(0, yw))
		fr.oblige(st, "negative-shift", "", Not(neg), nil, pos)
	}
	if yw > w {
		big := BVCmp("bvuge", y, BV(int64(w), yw))
		return Ite(big, BV(int64(w), w), Resize(y, w, false))
	}
	return Resize(y, w, false)
}

func (fr *Frame) wideOp(st *State, op token.Token, a, b Val, opT, resT types.Type, at ssa.Instruction, pos token.Pos) Val {
	x := a.Term()
	signed := isSigned(opT)
	var y Term
	if op != token.SHL && op != token.SHR {
		y = b.Term()
	}
	switch op {
	case token.ADD:
		if at == nil { // contract expression: mathematical integers
			return scalar(resT, IAdd(x, y))
		}
		return scalar(resT, wrapInt(IAdd(x, y), signed))
	case token.SUB:
		if at == nil {
			return scalar(resT, ISub(x, y))
		}
		return scalar(resT, wrapInt(ISub(x, y), signed))
	case token.MUL:
		if at == nil {
			return scalar(resT, IMul(x, y))
		}
		return scalar(resT, wrapIntMod(IMul(x, y), signed))
	case token.QUO, token.REM:
		if at != nil {
			fr.oblige(st, "div-by-zero", "", Not(Eq(y, IntT(0))), nil, pos)
			fr.assume(st, Not(Eq(y, IntT(0))))
		}
		// truncated division
		ax := Ite(IGe(x, IntT(0)), x, ISub(IntT(0), x))
		ay := Ite(IGe(y, IntT(0)), y, ISub(IntT(0), y))
		q := app(SInt, "div", ax, ay)
		sameSign := Eq(IGe(x, IntT(0)), IGe(y, IntT(0)))
		if op == token.QUO {
			return scalar(resT, wrapInt(Ite(sameSign, q, ISub(IntT(0), q)), signed))
		}
		r := app(SInt, "mod", ax, ay)
		return scalar(resT, Ite(IGe(x, IntT(0)), r, ISub(IntT(0), r)))
	case token.LSS:
		return scalar(resT, ILt(x, y))
	case token.LEQ:
		return scalar(resT, ILe(x, y))
	case token.GTR:
		return scalar(resT, IGt(x, y))
	case token.GEQ:
		return scalar(resT, IGe(x, y))
	case token.SHL:
		if n, ok := isIntLit(b.Term0()); ok && n >= 0 && n < 64 {
			if ax, ok := fr.altOf(a); ok {
				// bit-vector form: widen by n (capped at 64)
				w := sortWidth(ax.Sort) + int(n)
				if w > 64 {
					w = 64
				}
				r := BVOp("bvshl", zext(ax, w), BV(n, w))
				if w < 64 || !signed {
					out := scalar(resT, Bv2Nat(r))
					if w < 64 {
						out.Alt = r
					}
					return out
				}
			}
			return scalar(resT, wrapIntMod(IMul(x, IntBig(new(big.Int).Lsh(big.NewInt(1), uint(n)))), signed))
		}
		return fr.wideViaBV(st, op, a, b, opT, resT, at, pos)
	case token.SHR:
		if n, ok := isIntLit(b.Term0()); ok && n >= 0 {
			if n >= 64 {
				if signed {
					return scalar(resT, Ite(ILt(x, IntT(0)), IntT(-1), IntT(0)))
				}
				return scalar(resT, IntT(0))
			}
			// floor division by 2^n is the arithmetic / logical shift
			return scalar(resT, app(SInt, "div", x, IntBig(new(big.Int).Lsh(big.NewInt(1), uint(n)))))
		}
		return fr.wideViaBV(st, op, a, b, opT, resT, at, pos)
	case token.AND, token.OR, token.XOR, token.AND_NOT:
		ax, okx := fr.altOf(a)
		ay, oky := fr.altOf(b)
		if okx && oky {
			w := sortWidth(ax.Sort)
			if sortWidth(ay.Sort) > w {
				w = sortWidth(ay.Sort)
			}
			ax, ay = zext(ax, w), zext(ay, w)
			var r Term
			switch op {
			case token.AND:
				r = BVOp("bvand", ax, ay)
			case token.OR:
				r = BVOp("bvor", ax, ay)
			case token.XOR:
				r = BVOp("bvxor", ax, ay)
			case token.AND_NOT:
				r = BVOp("bvand", ax, app(ay.Sort, "bvnot", ay))
			}
			if w < 64 || !signed {
				out := scalar(resT, Bv2Nat(r))
				if w < 64 {
					out.Alt = r
				}
				return out
			}
		}
		// x & (2^k - 1) on non-negative values is x mod 2^k
		return fr.wideViaBV(st, op, a, b, opT, resT, at, pos)
	}
	panic(unsupported("binary operator " + op.String() + " on " + opT.String()))
}

// Term0 returns the single component of a scalar or an empty term.
func (v Val) Term0() Term {
	if v.K == KNormal && len(v.C) == 1 {
		return v.C[0]
	}
	return Term{}
}

// wideViaBV performs a bit operation on wide integers through 64-bit vectors.
func (fr *Frame) wideViaBV(st *State, op token.Token, a, b Val, opT, resT types.Type, at ssa.Instruction, pos token.Pos) Val {
	x := fr.intToBV(a.Term(), 64)
	signed := isSigned(opT)
	var r Term
	switch op {
	case token.SHL, token.SHR:
		cnt := fr.shiftCount(st, b, 64, at, pos)
		switch {
		case op == token.SHL:
			r = BVOp("bvshl", x, cnt)
		case signed:
			r = BVOp("bvashr", x, cnt)
		default:
			r = BVOp("bvlshr", x, cnt)
		}
	default:
		y := fr.intToBV(b.Term(), 64)
		switch op {
		case token.AND:
			r = BVOp("bvand", x, y)
		case token.OR:
			r = BVOp("bvor", x, y)
		case token.XOR:
			r = BVOp("bvxor", x, y)
		case token.AND_NOT:
			r = BVOp("bvand", x, app(y.Sort, "bvnot", y))
		}
	}
	fr.top.note("64-bit bit operation on an int value modelled through int<->bit-vector conversion")
	return scalar(resT, toInt(r, opT))
}

// ---------------------------------------------------------------------------------
// strings

func (fr *Frame) stringEq(st *State, a, b Val) Term {
	h := fr.heap(st, elemHeap(types.Typ[types.Uint8], ""), byteHeapSort)
	fr.top.nbound++
	j := Term{fmt.Sprintf("j!se%d", fr.top.nbound), SInt}
	// same normal form as contract quantifiers (absolute index into the first operand)
	body := Eq(Select(Select(h, a.Obj()), IAdd(a.Off(), j)), Select(Select(h, b.Obj()), IAdd(b.Off(), j)))
	return And(Eq(a.Len(), b.Len()), forallRange(j, IntT(0), a.Len(), body, nil))
}

func (fr *Frame) stringConcat(st *State, a, b Val, t types.Type) Val {
	obj := fr.newObject(st, "strcat")
	ln := IAdd(a.Len(), b.Len())
	h := fr.heap(st, elemHeap(types.Typ[types.Uint8], ""), byteHeapSort)
	arr := Select(h, obj)
	j := Term{"j!sc", SInt}
	body := And(
		Implies(InRange(j, IntT(0), a.Len()), Eq(Select(arr, j), Select(Select(h, a.Obj()), IAdd(a.Off(), j)))),
		Implies(InRange(j, a.Len(), ln), Eq(Select(arr, j), Select(Select(h, b.Obj()), IAdd(b.Off(), ISub(j, a.Len()))))))
	fr.assume(st, Forall([]Term{j}, body, Select(arr, j)))
	return mkString(t, obj, IntT(0), ln)
}

// ---------------------------------------------------------------------------------
// indexing and slicing

func (fr *Frame) boundsCheck(st *State, kind, detail string, idx, ln Term, pos token.Pos) {
	g := InRange(idx, IntT(0), ln)
	fr.oblige(st, kind, detail, g, nil, pos)
	fr.assume(st, g)
}

// idx64 gives the mathematical value of an index operand.
func (fr *Frame) idx64(v Val, t types.Type) Term { return toInt(v.Term(), t) }

func (fr *Frame) execIndexAddr(st *State, x *ssa.IndexAddr) {
	base := fr.val(st, x.X)
	idx := fr.idx64(fr.val(st, x.Index), x.Index.Type())
	switch u := x.X.Type().Underlying().(type) {
	case *types.Slice:
		fr.boundsCheck(st, "index", fr.describe(x), idx, base.Len(), x.Pos())
		fr.regs[x] = Val{K: KElemPtr, T: x.Type(), Base: base.Obj(), Idx: fr.ctx.Def("ix", IAdd(base.Off(), idx)), ElemT: u.Elem(), CHi: -1}
	case *types.Pointer:
		at := u.Elem().Underlying().(*types.Array)
		ref := base.Term()
		nn := Not(Eq(ref, Nil))
		if nn.S != "true" {
			fr.oblige(st, "nil-deref", fr.describe(x.X), nn, nil, x.Pos())
			fr.assume(st, nn)
		}
		fr.boundsCheck(st, "index", fr.describe(x), idx, IntT(at.Len()), x.Pos())
		fr.regs[x] = Val{K: KElemPtr, T: x.Type(), Base: ref, Idx: idx, ElemT: at.Elem(), CHi: -1}
	default:
		panic(unsupported("indexaddr on " + x.X.Type().String()))
	}
}

func (fr *Frame) execIndex(st *State, x *ssa.Index) {
	base := fr.val(st, x.X)
	idx := fr.idx64(fr.val(st, x.Index), x.Index.Type())
	switch u := x.X.Type().Underlying().(type) {
	case *types.Array:
		fr.boundsCheck(st, "index", fr.describe(x), idx, IntT(u.Len()), x.Pos())
		v := Val{K: KNormal, T: x.Type()}
		for _, c := range base.C {
			v.C = append(v.C, Select(c, idx))
		}
		fr.assumeWF(st, v)
		fr.setReg(x, v)
	case *types.Basic: // string
		fr.boundsCheck(st, "index", fr.describe(x), idx, base.Len(), x.Pos())
		h := fr.heap(st, elemHeap(types.Typ[types.Uint8], ""), byteHeapSort)
		fr.setReg(x, scalar(x.Type(), Select(Select(h, base.Obj()), IAdd(base.Off(), idx))))
	default:
		panic(unsupported("index on " + x.X.Type().String()))
	}
}

func (fr *Frame) execSlice(st *State, x *ssa.Slice) {
	base := fr.val(st, x.X)
	var obj, off, ln, cp Term
	isStr := false
	switch u := x.X.Type().Underlying().(type) {
	case *types.Slice:
		obj, off, ln, cp = base.Obj(), base.Off(), base.Len(), base.Cap()
	case *types.Basic:
		isStr = true
		obj, off, ln, cp = base.Obj(), base.Off(), base.Len(), base.Len()
	case *types.Pointer:
		at := u.Elem().Underlying().(*types.Array)
		ref := base.Term()
		nn := Not(Eq(ref, Nil))
		if nn.S != "true" {
			fr.oblige(st, "nil-deref", fr.describe(x.X), nn, nil, x.Pos())
			fr.assume(st, nn)
		}
		obj, off, ln, cp = ref, IntT(0), IntT(at.Len()), IntT(at.Len())
	default:
		panic(unsupported("slice of " + x.X.Type().String()))
	}
	lo := IntT(0)
	if x.Low != nil {
		lo = fr.idx64(fr.val(st, x.Low), x.Low.Type())
	}
	hi := ln
	if x.High != nil {
		hi = fr.idx64(fr.val(st, x.High), x.High.Type())
	}
	mx := cp
	if x.Max != nil {
		mx = fr.idx64(fr.val(st, x.Max), x.Max.Type())
	}
	limit := cp
	if isStr {
		limit = ln
	}
	g := And(ILe(IntT(0), lo), ILe(lo, hi), ILe(hi, mx), ILe(mx, limit))
	fr.oblige(st, "slice-bounds", fr.describe(x), g, nil, x.Pos())
	fr.assume(st, g)
	noff := IAdd(off, lo)
	nlen := ISub(hi, lo)
	if isStr {
		fr.setReg(x, mkString(x.Type(), obj, noff, nlen))
		return
	}
	ncap := ISub(mx, lo)
	fr.setReg(x, mkSlice(x.Type(), obj, noff, nlen, ncap))
}

func (fr *Frame) execConvert(st *State, x *ssa.Convert) {
	v := fr.val(st, x.X)
	from, to := x.X.Type(), x.Type()
	switch {
	case isInteger(from) && isInteger(to):
		fr.setReg2(x, fr.convInt(v, from, to))
	case isString(from) && isByteSlice(to):
		obj := fr.newObject(st, "bytes")
		fr.copyInto(st, obj, IntT(0), v.Obj(), v.Off(), v.Len(), types.Typ[types.Uint8])
		fr.setReg(x, mkSlice(to, obj, IntT(0), v.Len(), v.Len()))
	case isByteSlice(from) && isString(to):
		obj := fr.newObject(st, "string")
		fr.copyInto(st, obj, IntT(0), v.Obj(), v.Off(), v.Len(), types.Typ[types.Uint8])
		fr.setReg(x, mkString(to, obj, IntT(0), v.Len()))
	case isInteger(from) && isFloat(to), isFloat(from) && isInteger(to), isFloat(from) && isFloat(to):
		fr.top.note("float conversion abstracted (uninterpreted function of its operand)")
		fr.setReg(x, fr.floatConv(st, v, from, to))
	case isPointerLike(from) && isPointerLike(to):
		v.T = to
		fr.setReg(x, v)
	default:
		panic(unsupported(fmt.Sprintf("convert %s -> %s", from, to)))
	}
}

// setReg2 keeps the Alt component.
func (fr *Frame) setReg2(v ssa.Value, x Val) {
	alt := x.Alt
	fr.setReg(v, x)
	r := fr.regs[v]
	r.Alt = alt
	fr.regs[v] = r
}

// convInt converts between integer types with Go's semantics.
func (fr *Frame) convInt(v Val, from, to types.Type) Val {
	x := v.Term()
	fw, tw := isWide(from), isWide(to)
	switch {
	case fw && tw:
		if isSigned(from) == isSigned(to) {
			return Val{K: KNormal, T: to, C: []Term{x}, Alt: v.Alt}
		}
		if isSigned(to) { // unsigned -> signed
			return scalar(to, Ite(IGt(x, maxI64), ISub(x, IntBig(two64)), x))
		}
		return scalar(to, Ite(ILt(x, IntT(0)), IAdd(x, IntBig(two64)), x))
	case !fw && tw:
		out := scalar(to, toInt(x, from))
		if !isSigned(from) && sortWidth(x.Sort) < 64 {
			out.Alt = x
		}
		if !isSigned(from) && sortWidth(x.Sort) == 64 && isSigned(to) {
			// uint64 -> int: wrap
			n := Bv2Nat(x)
			return scalar(to, Ite(IGt(n, maxI64), ISub(n, IntBig(two64)), n))
		}
		return out
	case fw && !tw:
		w := typeWidth(to)
		if v.Alt.S != "" {
			return scalar(to, Resize(v.Alt, w, false))
		}
		return scalar(to, fr.intToBV(x, w))
	default:
		return scalar(to, Resize(x, typeWidth(to), isSigned(from)))
	}
}

// copyInto makes obj[dOff+j] = src[sOff+j] for 0<=j<n (all components), other indices unchanged.
func (fr *Frame) copyInto(st *State, dObj, dOff, sObj, sOff, n Term, et types.Type) {
	l := fr.en.layout(et)
	for k := range l {
		old := fr.ctx.Def("old", fr.objArray(st, dObj, et, k))
		src := fr.ctx.Def("src", fr.objArray(st, sObj, et, k))
		na := fr.ctx.Fresh("cp", old.Sort)
		j := Term{"j!cp", SInt}
		inr := InRange(j, dOff, IAdd(dOff, n))
		body := Eq(Select(na, j), Ite(inr, Select(src, IAdd(sOff, ISub(j, dOff))), Select(old, j)))
		fr.assume(st, Forall([]Term{j}, body, Select(na, j)))
		fr.setObjArray(st, dObj, et, k, na)
	}
}

func (fr *Frame) execMakeSlice(st *State, x *ssa.MakeSlice) {
	ln := fr.idx64(fr.val(st, x.Len), x.Len.Type())
	cp := fr.idx64(fr.val(st, x.Cap), x.Cap.Type())
	g := And(ILe(IntT(0), ln), ILe(ln, cp), ILe(cp, IntT(maxObj)))
	fr.oblige(st, "makeslice", fr.describe(x), g, nil, x.Pos())
	fr.assume(st, g)
	obj := fr.newObject(st, "mk")
	et := x.Type().Underlying().(*types.Slice).Elem()
	for k, c := range fr.en.layout(et) {
		as := ArrSort(SInt, c.Sort)
		fr.setObjArray(st, obj, et, k, Term{fmt.Sprintf("((as const %s) %s)", as, c.Zero.S), as})
	}
	fr.setReg(x, mkSlice(x.Type(), obj, IntT(0), ln, cp))
}
