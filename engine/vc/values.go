package vc

import (
	"fmt"
	"go/types"
	"strings"

	"golang.org/x/tools/go/ssa"
)

type Kind int

const (
	KNormal  Kind = iota // flattened components C of Go type T
	KCellPtr             // pointer to a local cell
	KFieldPtr            // pointer to a (non-struct, non-array) field of a heap struct
	KElemPtr             // pointer to an element of a slice/array object
	KBoxPtr              // pointer to a heap box holding a non-struct value
	KClosure
	KTuple
	KConst  // untyped numeric constant in contract expressions
	KGlobalPtr
	KKey // a raw map key term (contract expressions)
	KCondConst // cond ? const : const (contract expressions; C[0] is the condition, Elems the two constants)
)

// Val is a symbolic value.
type Val struct {
	K Kind
	T types.Type // for pointers: the pointer type
	C []Term
	Nav bool // contract expressions: reference standing for a struct/array value (nested field or local), not a Go pointer

	// pointers
	Cell  int          // KCellPtr
	Base  Term         // KFieldPtr: struct ref; KElemPtr: object ref; KBoxPtr: box ref
	SType *types.Named // KFieldPtr: declaring struct (named) — may be nil for anonymous
	SName string       // KFieldPtr: heap prefix of declaring struct
	Field int          // KFieldPtr
	Idx   Term         // KElemPtr
	ElemT types.Type   // KElemPtr: element type of the object
	CLo   int          // KElemPtr: component range inside the element (CHi<0: whole)
	CHi   int
	Glob  *ssa.Global

	// closures
	Fn    *ssa.Function
	Binds []Val

	// tuples
	Elems []Val

	// constants
	Big interface{} // *big.Int

	// Alt: for a wide integer known to be non-negative and to come from bit-vector data,
	// a bit-vector whose unsigned value equals the integer (used for bit operations).
	Alt Term
}

func (v Val) String() string {
	var s []string
	for _, c := range v.C {
		s = append(s, c.S)
	}
	return fmt.Sprintf("Val{%d %v [%s]}", v.K, v.T, strings.Join(s, " "))
}

// comp describes one flattened scalar component of a Go type.
type comp struct {
	Sort string
	Zero Term
	Path string // e.g. ".obj", ".Name.len"
}

func typeName(t types.Type) string {
	return types.TypeString(t, func(p *types.Package) string { return p.Name() })
}

func isByteLike(t types.Type) bool {
	b, ok := t.Underlying().(*types.Basic)
	return ok && (b.Kind() == types.Uint8)
}

// elemHeapName canonicalises the element type name for element memory.
func elemHeapName(t types.Type) string {
	if b, ok := t.Underlying().(*types.Basic); ok {
		// all integer types of the same width/signedness share memory only if same kind;
		// canonicalise named byte types to uint8.
		switch b.Kind() {
		case types.Uint8:
			return "uint8"
		}
	}
	return typeName(t)
}

func basicWidth(b *types.Basic) (w int, signed bool, ok bool) {
	switch b.Kind() {
	case types.Int8:
		return 8, true, true
	case types.Int16:
		return 16, true, true
	case types.Int32:
		return 32, true, true
	case types.Int64, types.Int:
		return 64, true, true
	case types.Uint8:
		return 8, false, true
	case types.Uint16:
		return 16, false, true
	case types.Uint32:
		return 32, false, true
	case types.Uint64, types.Uint, types.Uintptr:
		return 64, false, true
	case types.UntypedInt, types.UntypedRune:
		return 64, true, true
	}
	return 0, false, false
}

// isWide: 64-bit integer types modelled as mathematical Int with explicit wrap-around
// (int, int64, uint, uintptr). uint64 stays a bit-vector (hashes, address halves).
func isWide(t types.Type) bool {
	if b, ok := t.Underlying().(*types.Basic); ok {
		switch b.Kind() {
		case types.Int, types.Int64, types.Uint, types.Uintptr, types.UntypedInt, types.UntypedRune:
			return true
		}
	}
	return false
}

func isSigned(t types.Type) bool {
	if b, ok := t.Underlying().(*types.Basic); ok {
		_, s, _ := basicWidth(b)
		return s
	}
	return false
}

func isInteger(t types.Type) bool {
	if b, ok := t.Underlying().(*types.Basic); ok {
		_, _, ok := basicWidth(b)
		return ok
	}
	return false
}

func isString(t types.Type) bool {
	b, ok := t.Underlying().(*types.Basic)
	return ok && (b.Kind() == types.String || b.Kind() == types.UntypedString)
}

func isBool(t types.Type) bool {
	b, ok := t.Underlying().(*types.Basic)
	return ok && (b.Kind() == types.Bool || b.Kind() == types.UntypedBool)
}

// layout flattens a Go type into scalar components.
func (en *Engine) layout(t types.Type) []comp {
	key := t
	if l, ok := en.layouts[key]; ok {
		return l
	}
	var out []comp
	switch u := t.Underlying().(type) {
	case *types.Basic:
		switch {
		case u.Kind() == types.Bool || u.Kind() == types.UntypedBool:
			out = []comp{{SBool, False, ""}}
		case u.Kind() == types.String || u.Kind() == types.UntypedString:
			out = []comp{{SInt, Nil, ".obj"}, {SInt, Nil, ".off"}, {SInt, Nil, ".len"}}
		case u.Kind() == types.Float32 || u.Kind() == types.Float64 || u.Kind() == types.UntypedFloat:
			out = []comp{{"F64", Term{"f64zero", "F64"}, ""}}
		case u.Kind() == types.UnsafePointer:
			out = []comp{{SInt, Nil, ""}}
		case u.Kind() == types.UntypedNil:
			out = []comp{{SInt, Nil, ""}}
		default:
			w, _, ok := basicWidth(u)
			if !ok {
				panic(unsupported("basic type " + u.String()))
			}
			if isWide(t) {
				out = []comp{{SInt, Nil, ""}}
			} else {
				out = []comp{{BVSort(w), BV(0, w), ""}}
			}
		}
	case *types.Pointer, *types.Map, *types.Chan, *types.Signature:
		out = []comp{{SInt, Nil, ""}}
	case *types.Slice:
		out = []comp{{SInt, Nil, ".obj"}, {SInt, Nil, ".off"}, {SInt, Nil, ".len"}, {SInt, Nil, ".cap"}}
	case *types.Interface:
		out = []comp{{SInt, Nil, ".tag"}, {SInt, Nil, ".ref"}}
	case *types.Struct:
		for i := 0; i < u.NumFields(); i++ {
			f := u.Field(i)
			for _, c := range en.layout(f.Type()) {
				out = append(out, comp{c.Sort, c.Zero, "." + f.Name() + c.Path})
			}
		}
	case *types.Array:
		el := en.layout(u.Elem())
		for _, c := range el {
			as := ArrSort(SInt, c.Sort)
			out = append(out, comp{as, Term{fmt.Sprintf("((as const %s) %s)", as, c.Zero.S), as}, "[]" + c.Path})
		}
	case *types.Tuple:
		for i := 0; i < u.Len(); i++ {
			for _, c := range en.layout(u.At(i).Type()) {
				out = append(out, comp{c.Sort, c.Zero, fmt.Sprintf(".%d%s", i, c.Path)})
			}
		}
	case *types.TypeParam:
		panic(unsupported("type parameter " + t.String()))
	default:
		panic(unsupported("type " + t.String()))
	}
	en.layouts[key] = out
	return out
}

type unsupportedErr struct{ msg string }

func unsupported(msg string) unsupportedErr { return unsupportedErr{msg} }

func (en *Engine) zero(t types.Type) Val {
	l := en.layout(t)
	v := Val{K: KNormal, T: t, C: make([]Term, len(l))}
	for i, c := range l {
		v.C[i] = c.Zero
	}
	return v
}

// fresh returns an unconstrained symbolic value of type t.
func (fr *Frame) fresh(prefix string, t types.Type) Val {
	l := fr.en.layout(t)
	v := Val{K: KNormal, T: t, C: make([]Term, len(l))}
	for i, c := range l {
		v.C[i] = fr.ctx.Fresh(prefix+c.Path, c.Sort)
	}
	return v
}

func scalar(t types.Type, x Term) Val { return Val{K: KNormal, T: t, C: []Term{x}} }

func (v Val) Term() Term {
	if v.K != KNormal || len(v.C) != 1 {
		panic(fmt.Sprintf("Term() of non-scalar %v", v))
	}
	return v.C[0]
}

// slice accessors
func (v Val) Obj() Term { return v.C[0] }
func (v Val) Off() Term { return v.C[1] }
func (v Val) Len() Term { return v.C[2] }
func (v Val) Cap() Term {
	if len(v.C) >= 4 {
		return v.C[3]
	}
	return v.C[2]
}

func mkSlice(t types.Type, obj, off, ln, cp Term) Val {
	return Val{K: KNormal, T: t, C: []Term{obj, off, ln, cp}}
}

func mkString(t types.Type, obj, off, ln Term) Val {
	return Val{K: KNormal, T: t, C: []Term{obj, off, ln}}
}

// fieldRange returns the component range of field i of struct type st.
func (en *Engine) fieldRange(st *types.Struct, i int) (int, int) {
	off := 0
	for k := 0; k < i; k++ {
		off += len(en.layout(st.Field(k).Type()))
	}
	return off, off + len(en.layout(st.Field(i).Type()))
}

func (en *Engine) structField(v Val, i int) Val {
	st := v.T.Underlying().(*types.Struct)
	lo, hi := en.fieldRange(st, i)
	return Val{K: KNormal, T: st.Field(i).Type(), C: v.C[lo:hi]}
}

func iteVal(c Term, a, b Val) (Val, bool) {
	if a.K != b.K {
		return Val{}, false
	}
	switch a.K {
	case KNormal:
		if len(a.C) != len(b.C) {
			return Val{}, false
		}
		out := Val{K: KNormal, T: a.T, C: make([]Term, len(a.C))}
		for i := range a.C {
			if a.C[i].Sort != b.C[i].Sort {
				return Val{}, false
			}
			out.C[i] = Ite(c, a.C[i], b.C[i])
		}
		if a.Alt.S != "" && b.Alt.S != "" && a.Alt.Sort == b.Alt.Sort {
			out.Alt = Ite(c, a.Alt, b.Alt)
		}
		return out, true
	case KCellPtr:
		if a.Cell == b.Cell {
			return a, true
		}
	case KFieldPtr:
		if a.SName == b.SName && a.Field == b.Field {
			o := a
			o.Base = Ite(c, a.Base, b.Base)
			return o, true
		}
	case KElemPtr:
		if types.Identical(a.T, b.T) {
			o := a
			o.Base = Ite(c, a.Base, b.Base)
			o.Idx = Ite(c, a.Idx, b.Idx)
			return o, true
		}
	case KBoxPtr:
		o := a
		o.Base = Ite(c, a.Base, b.Base)
		return o, true
	case KClosure:
		if a.Fn == b.Fn && len(a.Binds) == len(b.Binds) {
			o := a
			o.Binds = make([]Val, len(a.Binds))
			for i := range a.Binds {
				x, ok := iteVal(c, a.Binds[i], b.Binds[i])
				if !ok {
					return Val{}, false
				}
				o.Binds[i] = x
			}
			return o, true
		}
	case KTuple:
		if len(a.Elems) == len(b.Elems) {
			o := Val{K: KTuple, T: a.T, Elems: make([]Val, len(a.Elems))}
			for i := range a.Elems {
				x, ok := iteVal(c, a.Elems[i], b.Elems[i])
				if !ok {
					return Val{}, false
				}
				o.Elems[i] = x
			}
			return o, true
		}
	case KGlobalPtr:
		if a.Glob == b.Glob {
			return a, true
		}
	}
	return Val{}, false
}

func sameVal(a, b Val) bool {
	if a.K != b.K || len(a.C) != len(b.C) {
		return false
	}
	for i := range a.C {
		if a.C[i].S != b.C[i].S {
			return false
		}
	}
	switch a.K {
	case KCellPtr:
		return a.Cell == b.Cell
	case KFieldPtr:
		return a.SName == b.SName && a.Field == b.Field && a.Base.S == b.Base.S
	case KElemPtr:
		return a.Base.S == b.Base.S && a.Idx.S == b.Idx.S
	case KBoxPtr:
		return a.Base.S == b.Base.S
	case KClosure:
		if a.Fn != b.Fn || len(a.Binds) != len(b.Binds) {
			return false
		}
		for i := range a.Binds {
			if !sameVal(a.Binds[i], b.Binds[i]) {
				return false
			}
		}
	case KTuple:
		if len(a.Elems) != len(b.Elems) {
			return false
		}
		for i := range a.Elems {
			if !sameVal(a.Elems[i], b.Elems[i]) {
				return false
			}
		}
	case KGlobalPtr:
		return a.Glob == b.Glob
	}
	return true
}
