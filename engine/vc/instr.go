package vc

import (
	"fmt"
	"go/constant"
	"go/token"
	"go/types"
	"math/big"

	"golang.org/x/tools/go/ssa"
)

type bigInt struct{ v *big.Int }

// describe gives a short, source-level name for an SSA value (used in obligation names).
func (fr *Frame) describe(v ssa.Value) string {
	return describeVal(v, 0)
}

func describeVal(v ssa.Value, depth int) string {
	if depth > 4 {
		return v.Name()
	}
	switch x := v.(type) {
	case *ssa.Const:
		if x.Value == nil {
			return "nil"
		}
		s := x.Value.ExactString()
		if len(s) > 20 {
			s = s[:20]
		}
		return s
	case *ssa.Parameter:
		return x.Name()
	case *ssa.Alloc:
		return allocName(x)
	case *ssa.Global:
		return x.Name()
	case *ssa.UnOp:
		if x.Op == token.MUL {
			return describeVal(x.X, depth+1)
		}
		return x.Op.String() + describeVal(x.X, depth+1)
	case *ssa.FieldAddr:
		st := x.X.Type().Underlying().(*types.Pointer).Elem().Underlying().(*types.Struct)
		return describeVal(x.X, depth+1) + "." + st.Field(x.Field).Name()
	case *ssa.Field:
		st := x.X.Type().Underlying().(*types.Struct)
		return describeVal(x.X, depth+1) + "." + st.Field(x.Field).Name()
	case *ssa.IndexAddr:
		return describeVal(x.X, depth+1) + "[" + describeVal(x.Index, depth+1) + "]"
	case *ssa.Index:
		return describeVal(x.X, depth+1) + "[" + describeVal(x.Index, depth+1) + "]"
	case *ssa.Lookup:
		return describeVal(x.X, depth+1) + "[" + describeVal(x.Index, depth+1) + "]"
	case *ssa.BinOp:
		return describeVal(x.X, depth+1) + x.Op.String() + describeVal(x.Y, depth+1)
	case *ssa.Convert:
		return describeVal(x.X, depth+1)
	case *ssa.ChangeType:
		return describeVal(x.X, depth+1)
	case *ssa.Slice:
		s := describeVal(x.X, depth+1) + "["
		if x.Low != nil {
			s += describeVal(x.Low, depth+1)
		}
		s += ":"
		if x.High != nil {
			s += describeVal(x.High, depth+1)
		}
		return s + "]"
	case *ssa.Call:
		if f := x.Call.StaticCallee(); f != nil {
			return f.Name() + "()"
		}
		if x.Call.IsInvoke() {
			return x.Call.Method.Name() + "()"
		}
		if b, ok := x.Call.Value.(*ssa.Builtin); ok {
			if len(x.Call.Args) > 0 {
				return b.Name() + "(" + describeVal(x.Call.Args[0], depth+1) + ")"
			}
			return b.Name() + "()"
		}
		return "call"
	case *ssa.Extract:
		return describeVal(x.Tuple, depth+1) + fmt.Sprintf(".%d", x.Index)
	case *ssa.Function:
		return x.Name()
	case *ssa.TypeAssert:
		return describeVal(x.X, depth+1) + ".(" + typeName(x.AssertedType) + ")"
	}
	return v.Name()
}

func (fr *Frame) constVal(c *ssa.Const, st *State) Val {
	t := c.Type()
	if c.Value == nil {
		return fr.en.zero(t)
	}
	switch u := t.Underlying().(type) {
	case *types.Basic:
		switch {
		case u.Info()&types.IsBoolean != 0:
			if constant.BoolVal(c.Value) {
				return scalar(t, True)
			}
			return scalar(t, False)
		case u.Info()&types.IsString != 0:
			return fr.stringConst(st, t, constant.StringVal(c.Value))
		case u.Info()&types.IsInteger != 0:
			w, _, _ := basicWidth(u)
			bi, ok := new(big.Int).SetString(c.Value.ExactString(), 10)
			if !ok {
				panic(unsupported("integer constant " + c.Value.ExactString()))
			}
			return scalar(t, BVBig(bi, w))
		case u.Info()&types.IsFloat != 0:
			return scalar(t, fr.ctx.Const("fconst:"+c.Value.ExactString(), "F64"))
		}
	}
	panic(unsupported("constant of type " + t.String()))
}

// stringConst returns the (shared, immutable) object for a string constant.
func (fr *Frame) stringConst(st *State, t types.Type, s string) Val {
	top := fr.top
	if v, ok := top.strObjs[s]; ok {
		v.T = t
		return v
	}
	if s == "" {
		v := mkString(t, Nil, BV(0, 64), BV(0, 64))
		top.strObjs[s] = v
		return v
	}
	obj := fr.ctx.Fresh("str", SInt)
	fr.ctx.Assume(And(Not(Eq(obj, Nil)), IntCmp("<", top.stamp(obj), top.alloc0)))
	// content: the bytes live in the entry heap and string objects are never written
	if len(s) <= 64 {
		h := top.entryHeap(elemHeap(types.Typ[types.Uint8], ""), ArrSort(SInt, ArrSort(SBV64, SBV8)))
		arr := Select(h, obj)
		var cs []Term
		for i := 0; i < len(s); i++ {
			cs = append(cs, Eq(Select(arr, BV(int64(i), 64)), BV(int64(s[i]), 8)))
		}
		fr.ctx.Assume(And(cs...))
		top.constStrs = append(top.constStrs, obj)
	}
	v := mkString(t, obj, BV(0, 64), BV(int64(len(s)), 64))
	top.strObjs[s] = v
	return v
}

// val evaluates an SSA operand.
func (fr *Frame) val(st *State, v ssa.Value) Val {
	switch x := v.(type) {
	case *ssa.Const:
		return fr.constVal(x, st)
	case *ssa.Global:
		return Val{K: KGlobalPtr, T: x.Type(), Glob: x}
	case *ssa.Function:
		return Val{K: KClosure, T: x.Type(), Fn: x}
	case *ssa.FreeVar:
		for i, fv := range fr.fn.FreeVars {
			if fv == x {
				return fr.binds[i]
			}
		}
		panic(unsupported("free variable not bound"))
	case *ssa.Builtin:
		panic(unsupported("builtin used as value"))
	}
	r, ok := fr.regs[v]
	if !ok {
		panic(unsupported(fmt.Sprintf("use of undefined register %s in %s", v.Name(), fr.fn.Name())))
	}
	return r
}

func (fr *Frame) setReg(v ssa.Value, x Val) {
	if x.K == KNormal {
		for i := range x.C {
			x.C[i] = fr.ctx.Def(v.Name(), x.C[i])
		}
	}
	fr.regs[v] = x
}

func (fr *Frame) execInstr(st *State, instr ssa.Instruction) {
	switch x := instr.(type) {
	case *ssa.DebugRef:
		return
	case *ssa.Alloc:
		fr.execAlloc(st, x)
	case *ssa.Store:
		if isDeferStack(x.Val.Type()) {
			return
		}
		p := fr.val(st, x.Addr)
		v := fr.val(st, x.Val)
		if nn := ptrNonNil(p); nn.S != "true" {
			fr.oblige(st, "nil-deref", fr.describe(x.Addr), nn, nil, x.Pos())
			fr.assume(st, nn)
		}
		fr.store(st, p, x.Val.Type(), v)
	case *ssa.UnOp:
		fr.execUnOp(st, x)
	case *ssa.BinOp:
		a := fr.val(st, x.X)
		b := fr.val(st, x.Y)
		fr.setReg(x, fr.binop(st, x.Op, a, b, x.X.Type(), x.Type(), x))
	case *ssa.FieldAddr:
		fr.execFieldAddr(st, x)
	case *ssa.Field:
		s := fr.val(st, x.X)
		fr.setReg(x, fr.en.structField(s, x.Field))
	case *ssa.IndexAddr:
		fr.execIndexAddr(st, x)
	case *ssa.Index:
		fr.execIndex(st, x)
	case *ssa.Slice:
		fr.execSlice(st, x)
	case *ssa.Convert:
		fr.execConvert(st, x)
	case *ssa.ChangeType:
		v := fr.val(st, x.X)
		v.T = x.Type()
		fr.setReg(x, v)
	case *ssa.ChangeInterface:
		v := fr.val(st, x.X)
		v.T = x.Type()
		fr.setReg(x, v)
	case *ssa.MakeInterface:
		fr.execMakeInterface(st, x)
	case *ssa.TypeAssert:
		fr.execTypeAssert(st, x)
	case *ssa.Extract:
		t := fr.val(st, x.Tuple)
		if t.K != KTuple {
			panic(unsupported("extract from non-tuple"))
		}
		fr.regs[x] = t.Elems[x.Index]
	case *ssa.Call:
		res := fr.execCall(st, x.Common(), x, x.Pos())
		if res != nil {
			fr.setRegTuple(x, res)
		}
	case *ssa.Defer:
		fr.execDefer(st, x)
	case *ssa.RunDefers:
		fr.runDefers(st, x)
	case *ssa.Go:
		fr.execGo(st, x)
	case *ssa.MakeClosure:
		fn := x.Fn.(*ssa.Function)
		c := Val{K: KClosure, T: x.Type(), Fn: fn}
		for _, b := range x.Bindings {
			c.Binds = append(c.Binds, fr.val(st, b))
		}
		fr.regs[x] = c
	case *ssa.MakeSlice:
		fr.execMakeSlice(st, x)
	case *ssa.MakeMap:
		ref := fr.newObject(st, "map")
		fr.mapInitEmpty(st, ref, x.Type())
		fr.setReg(x, scalar(x.Type(), ref))
	case *ssa.MakeChan:
		ref := fr.newObject(st, "chan")
		fr.setReg(x, scalar(x.Type(), ref))
	case *ssa.Lookup:
		fr.execLookup(st, x)
	case *ssa.MapUpdate:
		fr.execMapUpdate(st, x)
	case *ssa.Phi:
		panic(unsupported("phi in naive form"))
	case *ssa.Select:
		fr.execSelect(st, x)
	case *ssa.Send:
		fr.top.note("channel send not modelled (treated as no-op) in " + fr.fn.Name())
	case *ssa.Range, *ssa.Next:
		panic(unsupported("range over map/string"))
	case *ssa.SliceToArrayPointer:
		panic(unsupported("slice to array pointer"))
	case *ssa.MultiConvert:
		panic(unsupported("multiconvert"))
	default:
		panic(unsupported(fmt.Sprintf("instruction %T", instr)))
	}
}

func (fr *Frame) setRegTuple(x *ssa.Call, res []Val) {
	sig := x.Call.Signature()
	if b, ok := x.Call.Value.(*ssa.Builtin); ok {
		if b.Name() == "ssa:deferstack" {
			fr.regs[x] = res[0]
			return
		}
		if len(res) == 1 {
			fr.setReg(x, res[0])
		}
		return
	}
	switch sig.Results().Len() {
	case 0:
	case 1:
		fr.setReg(x, res[0])
	default:
		fr.regs[x] = Val{K: KTuple, T: sig.Results(), Elems: res}
	}
}

func (fr *Frame) execAlloc(st *State, x *ssa.Alloc) {
	et := x.Type().(*types.Pointer).Elem()
	switch u := et.Underlying().(type) {
	case *types.Struct:
		ref := fr.newObject(st, "obj_"+allocName(x))
		fr.storeStruct(st, ref, et, fr.en.zero(et))
		fr.setReg(x, scalar(x.Type(), ref))
		if x.Comment != "" {
			fr.localNames[x.Comment] = append(fr.localNames[x.Comment], x)
		}
		return
	case *types.Array:
		ref := fr.newObject(st, "arr_"+allocName(x))
		fr.storeArray(st, ref, u, fr.en.zero(et))
		fr.setReg(x, scalar(x.Type(), ref))
		if x.Comment != "" {
			fr.localNames[x.Comment] = append(fr.localNames[x.Comment], x)
		}
		return
	}
	if et.String() == "$ssa.deferStack" || isDeferStack(et) {
		fr.regs[x] = Val{K: KCellPtr, T: x.Type(), Cell: -1}
		return
	}
	id, ok := fr.cellOf[x]
	if !ok {
		fr.top.ncell++
		id = fr.top.ncell
		fr.cellOf[x] = id
		fr.top.cellT[id] = et
		if x.Comment != "" {
			fr.localNames[x.Comment] = append(fr.localNames[x.Comment], x)
		}
	}
	st.cells[id] = fr.en.zero(et)
	fr.regs[x] = Val{K: KCellPtr, T: x.Type(), Cell: id}
}

func isDeferStack(t types.Type) bool {
	return typeName(t) == "$ssa.deferStack" || t.String() == "deferStack"
}

func (fr *Frame) execUnOp(st *State, x *ssa.UnOp) {
	switch x.Op {
	case token.MUL: // load
		if isDeferStack(x.Type()) {
			fr.regs[x] = Val{K: KNormal, T: x.Type()}
			return
		}
		p := fr.val(st, x.X)
		if p.K == KCellPtr && p.Cell == -1 {
			fr.regs[x] = Val{K: KNormal, T: x.Type()}
			return
		}
		if nn := ptrNonNil(p); nn.S != "true" {
			fr.oblige(st, "nil-deref", fr.describe(x.X), nn, nil, x.Pos())
			fr.assume(st, nn)
		}
		v := fr.load(st, p, x.Type())
		v.T = x.Type()
		if v.K == KNormal {
			fr.setReg(x, v)
		} else {
			fr.regs[x] = v
		}
	case token.NOT:
		fr.setReg(x, scalar(x.Type(), Not(fr.val(st, x.X).Term())))
	case token.SUB:
		a := fr.val(st, x.X).Term()
		fr.setReg(x, scalar(x.Type(), app(a.Sort, "bvneg", a)))
	case token.XOR:
		a := fr.val(st, x.X).Term()
		fr.setReg(x, scalar(x.Type(), app(a.Sort, "bvnot", a)))
	case token.ARROW:
		fr.execRecv(st, x)
	default:
		panic(unsupported("unary op " + x.Op.String()))
	}
}

func (fr *Frame) binop(st *State, op token.Token, a, b Val, opT, resT types.Type, at ssa.Instruction) Val {
	// comparisons on composite values
	switch op {
	case token.EQL, token.NEQ:
		eq := fr.valEq(st, a, b, opT)
		if op == token.NEQ {
			eq = Not(eq)
		}
		return scalar(resT, eq)
	}
	if isString(opT) {
		switch op {
		case token.ADD:
			return fr.stringConcat(st, a, b, resT)
		}
		panic(unsupported("string operator " + op.String()))
	}
	if isBool(opT) {
		x, y := a.Term(), b.Term()
		switch op {
		case token.AND, token.LAND:
			return scalar(resT, And(x, y))
		case token.OR, token.LOR:
			return scalar(resT, Or(x, y))
		}
		panic(unsupported("bool operator " + op.String()))
	}
	if !isInteger(opT) {
		if bt, ok := opT.Underlying().(*types.Basic); ok && bt.Info()&types.IsFloat != 0 {
			return fr.floatOp(st, op, a, b, resT)
		}
		panic(unsupported("binary operator " + op.String() + " on " + opT.String()))
	}
	x, y := a.Term(), b.Term()
	signed := isSigned(opT)
	w := sortWidth(x.Sort)
	pos := token.NoPos
	if at != nil {
		pos = at.Pos()
	}
	switch op {
	case token.ADD:
		return scalar(resT, BVOp("bvadd", x, y))
	case token.SUB:
		return scalar(resT, BVOp("bvsub", x, y))
	case token.MUL:
		return scalar(resT, BVOp("bvmul", x, y))
	case token.QUO, token.REM:
		if at != nil {
			fr.oblige(st, "div-by-zero", "", Not(Eq(y, BV(0, w))), nil, pos)
			fr.assume(st, Not(Eq(y, BV(0, w))))
		}
		o := map[bool]map[token.Token]string{true: {token.QUO: "bvsdiv", token.REM: "bvsrem"}, false: {token.QUO: "bvudiv", token.REM: "bvurem"}}[signed][op]
		return scalar(resT, BVOp(o, x, y))
	case token.AND:
		return scalar(resT, BVOp("bvand", x, y))
	case token.OR:
		return scalar(resT, BVOp("bvor", x, y))
	case token.XOR:
		return scalar(resT, BVOp("bvxor", x, y))
	case token.AND_NOT:
		return scalar(resT, BVOp("bvand", x, app(y.Sort, "bvnot", y)))
	case token.SHL, token.SHR:
		// shift count may have a different width; Go semantics: count >= width gives 0 (or sign fill)
		yw := sortWidth(y.Sort)
		var cnt Term
		if yw > w {
			// saturate
			big := BVCmp("bvuge", y, BV(int64(w), yw))
			cnt = Ite(big, BV(int64(w), w), Resize(y, w, false))
		} else {
			cnt = Resize(y, w, false)
		}
		if at != nil {
			if bt, ok := at.(*ssa.BinOp); ok && isSigned(bt.Y.Type()) {
				yy := fr.regOrConst(st, bt.Y)
				neg := BVCmp("bvslt", yy, BV(0, sortWidth(yy.Sort)))
				if neg.S != "false" {
					fr.oblige(st, "negative-shift", "", Not(neg), nil, pos)
				}
			}
		}
		switch {
		case op == token.SHL:
			return scalar(resT, BVOp("bvshl", x, cnt))
		case signed:
			return scalar(resT, BVOp("bvashr", x, cnt))
		default:
			return scalar(resT, BVOp("bvlshr", x, cnt))
		}
	case token.LSS, token.LEQ, token.GTR, token.GEQ:
		m := map[token.Token][2]string{token.LSS: {"bvslt", "bvult"}, token.LEQ: {"bvsle", "bvule"}, token.GTR: {"bvsgt", "bvugt"}, token.GEQ: {"bvsge", "bvuge"}}[op]
		o := m[1]
		if signed {
			o = m[0]
		}
		return scalar(resT, BVCmp(o, x, y))
	}
	panic(unsupported("binary operator " + op.String()))
}


func (fr *Frame) regOrConst(st *State, v ssa.Value) Term { return fr.val(st, v).Term() }

func (fr *Frame) floatOp(st *State, op token.Token, a, b Val, resT types.Type) Val {
	fr.top.note("floating point operation abstracted (uninterpreted)")
	if isBool(resT) {
		return scalar(resT, fr.ctx.Fresh("fcmp", SBool))
	}
	return scalar(resT, fr.ctx.Fresh("fop", "F64"))
}

// valEq compares two values of static type t.
func (fr *Frame) valEq(st *State, a, b Val, t types.Type) Term {
	if a.K != KNormal || b.K != KNormal {
		if a.K == b.K && sameVal(a, b) {
			return True
		}
		// pointer comparison against nil
		if a.K != KNormal && b.K == KNormal && len(b.C) == 1 && b.C[0].S == "0" {
			return Not(ptrNonNil(a))
		}
		if b.K != KNormal && a.K == KNormal && len(a.C) == 1 && a.C[0].S == "0" {
			return Not(ptrNonNil(b))
		}
		if a.K == KClosure || b.K == KClosure {
			// func == nil
			if a.K == KClosure && b.K == KNormal {
				return False
			}
			if b.K == KClosure && a.K == KNormal {
				return False
			}
		}
		panic(unsupported("comparison of pointer-like values"))
	}
	switch u := t.Underlying().(type) {
	case *types.Slice:
		// only comparison with nil is legal
		if b.C[0].S == "0" {
			return Eq(a.C[0], Nil)
		}
		return Eq(b.C[0], Nil)
	case *types.Basic:
		if isString(t) {
			return fr.stringEq(st, a, b)
		}
	case *types.Interface:
		// identical dynamic type and value (pointer identity / sentinel identity)
		return And(Eq(a.C[0], b.C[0]), Eq(a.C[1], b.C[1]))
	case *types.Array:
		n := u.Len()
		if n <= 32 {
			var cs []Term
			for k := range a.C {
				for i := int64(0); i < n; i++ {
					cs = append(cs, Eq(Select(a.C[k], BV(i, 64)), Select(b.C[k], BV(i, 64))))
				}
			}
			return And(cs...)
		}
		panic(unsupported("comparison of large arrays"))
	case *types.Signature:
		if b.C[0].S == "0" {
			return Eq(a.C[0], Nil)
		}
	}
	if len(a.C) != len(b.C) {
		panic(unsupported("comparison of values with different layouts"))
	}
	var cs []Term
	for i := range a.C {
		cs = append(cs, Eq(a.C[i], b.C[i]))
	}
	return And(cs...)
}

func (fr *Frame) stringEq(st *State, a, b Val) Term {
	// len equal and bytes equal
	h := fr.heap(st, elemHeap(types.Typ[types.Uint8], ""), ArrSort(SInt, ArrSort(SBV64, SBV8)))
	j := Term{"j!se", SBV64}
	body := Implies(And(BVCmp("bvsle", BV(0, 64), j), BVCmp("bvslt", j, a.Len())),
		Eq(Select(Select(h, a.Obj()), BVOp("bvadd", a.Off(), j)), Select(Select(h, b.Obj()), BVOp("bvadd", b.Off(), j))))
	return And(Eq(a.Len(), b.Len()), Forall([]Term{j}, body))
}

func (fr *Frame) stringConcat(st *State, a, b Val, t types.Type) Val {
	obj := fr.newObject(st, "strcat")
	ln := BVOp("bvadd", a.Len(), b.Len())
	h := fr.heap(st, elemHeap(types.Typ[types.Uint8], ""), ArrSort(SInt, ArrSort(SBV64, SBV8)))
	arr := Select(h, obj)
	j := Term{"j!sc", SBV64}
	body := And(
		Implies(And(BVCmp("bvsle", BV(0, 64), j), BVCmp("bvslt", j, a.Len())), Eq(Select(arr, j), Select(Select(h, a.Obj()), BVOp("bvadd", a.Off(), j)))),
		Implies(And(BVCmp("bvsle", a.Len(), j), BVCmp("bvslt", j, ln)), Eq(Select(arr, j), Select(Select(h, b.Obj()), BVOp("bvadd", b.Off(), BVOp("bvsub", j, a.Len()))))))
	fr.assume(st, Forall([]Term{j}, body, Select(arr, j)))
	return mkString(t, obj, BV(0, 64), ln)
}

func (fr *Frame) execFieldAddr(st *State, x *ssa.FieldAddr) {
	base := fr.val(st, x.X)
	pt := x.X.Type().Underlying().(*types.Pointer)
	stt := pt.Elem().Underlying().(*types.Struct)
	sname := typeName(pt.Elem())
	ft := stt.Field(x.Field).Type()
	switch base.K {
	case KNormal:
		ref := base.Term()
		nn := Not(Eq(ref, Nil))
		fr.oblige(st, "nil-deref", fr.describe(x.X)+"."+stt.Field(x.Field).Name(), nn, nil, x.Pos())
		fr.assume(st, nn)
		switch ft.Underlying().(type) {
		case *types.Struct, *types.Array:
			fr.setReg(x, scalar(x.Type(), fr.subRef(ref, sname, stt, x.Field)))
		default:
			named, _ := pt.Elem().(*types.Named)
			fr.regs[x] = Val{K: KFieldPtr, T: x.Type(), Base: fr.ctx.Def("ref", ref), SType: named, SName: sname, Field: x.Field}
			if named == nil {
				panic(unsupported("field address in anonymous struct"))
			}
		}
	case KElemPtr:
		// pointer to a struct element of a slice: narrow the component range
		lo, hi := base.CLo, base.CHi
		if hi < 0 {
			lo, hi = 0, len(fr.en.layout(base.ElemT))
		}
		flo, fhi := fr.en.fieldRange(stt, x.Field)
		_ = hi
		nb := base
		nb.T = x.Type()
		nb.CLo, nb.CHi = lo+flo, lo+fhi
		fr.regs[x] = nb
	default:
		panic(unsupported("field address through unsupported pointer"))
	}
}

func (fr *Frame) boundsCheck(st *State, kind, detail string, idx, ln Term, pos token.Pos) {
	g := And(BVCmp("bvsle", BV(0, 64), idx), BVCmp("bvslt", idx, ln))
	fr.oblige(st, kind, detail, g, nil, pos)
	fr.assume(st, g)
}

func (fr *Frame) idx64(v Val, t types.Type) Term {
	x := v.Term()
	return Resize(x, 64, isSigned(t))
}

func (fr *Frame) execIndexAddr(st *State, x *ssa.IndexAddr) {
	base := fr.val(st, x.X)
	idx := fr.idx64(fr.val(st, x.Index), x.Index.Type())
	if !isSigned(x.Index.Type()) && sortWidth(fr.val(st, x.Index).Term().Sort) == 64 {
		// unsigned 64-bit index: must also be < 2^63
		fr.assume(st, True)
	}
	switch u := x.X.Type().Underlying().(type) {
	case *types.Slice:
		fr.boundsCheck(st, "index", fr.describe(x), idx, base.Len(), x.Pos())
		fr.regs[x] = Val{K: KElemPtr, T: x.Type(), Base: base.Obj(), Idx: fr.ctx.Def("ix", BVOp("bvadd", base.Off(), idx)), ElemT: u.Elem(), CHi: -1}
	case *types.Pointer:
		at := u.Elem().Underlying().(*types.Array)
		ref := base.Term()
		nn := Not(Eq(ref, Nil))
		if nn.S != "true" {
			fr.oblige(st, "nil-deref", fr.describe(x.X), nn, nil, x.Pos())
			fr.assume(st, nn)
		}
		fr.boundsCheck(st, "index", fr.describe(x), idx, BV(at.Len(), 64), x.Pos())
		fr.regs[x] = Val{K: KElemPtr, T: x.Type(), Base: ref, Idx: idx, ElemT: at.Elem(), CHi: -1}
	default:
		panic(unsupported("indexaddr on " + x.X.Type().String()))
	}
}

func (fr *Frame) execIndex(st *State, x *ssa.Index) {
	base := fr.val(st, x.X)
	idx := fr.idx64(fr.val(st, x.Index), x.Index.Type())
	switch u := x.X.Type().Underlying().(type) {
	case *types.Array:
		fr.boundsCheck(st, "index", fr.describe(x), idx, BV(u.Len(), 64), x.Pos())
		v := Val{K: KNormal, T: x.Type()}
		for _, c := range base.C {
			v.C = append(v.C, Select(c, idx))
		}
		fr.assumeWF(st, v)
		fr.setReg(x, v)
	case *types.Basic: // string
		fr.boundsCheck(st, "index", fr.describe(x), idx, base.Len(), x.Pos())
		h := fr.heap(st, elemHeap(types.Typ[types.Uint8], ""), ArrSort(SInt, ArrSort(SBV64, SBV8)))
		fr.setReg(x, scalar(x.Type(), Select(Select(h, base.Obj()), BVOp("bvadd", base.Off(), idx))))
	default:
		panic(unsupported("index on " + x.X.Type().String()))
	}
}

func (fr *Frame) execSlice(st *State, x *ssa.Slice) {
	base := fr.val(st, x.X)
	var obj, off, ln, cp Term
	isStr := false
	switch u := x.X.Type().Underlying().(type) {
	case *types.Slice:
		obj, off, ln, cp = base.Obj(), base.Off(), base.Len(), base.Cap()
	case *types.Basic:
		isStr = true
		obj, off, ln, cp = base.Obj(), base.Off(), base.Len(), base.Len()
	case *types.Pointer:
		at := u.Elem().Underlying().(*types.Array)
		ref := base.Term()
		nn := Not(Eq(ref, Nil))
		if nn.S != "true" {
			fr.oblige(st, "nil-deref", fr.describe(x.X), nn, nil, x.Pos())
			fr.assume(st, nn)
		}
		obj, off, ln, cp = ref, BV(0, 64), BV(at.Len(), 64), BV(at.Len(), 64)
	default:
		panic(unsupported("slice of " + x.X.Type().String()))
	}
	lo := BV(0, 64)
	if x.Low != nil {
		lo = fr.idx64(fr.val(st, x.Low), x.Low.Type())
	}
	hi := ln
	if x.High != nil {
		hi = fr.idx64(fr.val(st, x.High), x.High.Type())
	}
	mx := cp
	if x.Max != nil {
		mx = fr.idx64(fr.val(st, x.Max), x.Max.Type())
	}
	// 0 <= lo <= hi <= max <= cap
	limit := cp
	if isStr {
		limit = ln
	}
	g := And(BVCmp("bvsle", BV(0, 64), lo), BVCmp("bvsle", lo, hi), BVCmp("bvsle", hi, mx), BVCmp("bvsle", mx, limit))
	fr.oblige(st, "slice-bounds", fr.describe(x), g, nil, x.Pos())
	fr.assume(st, g)
	noff := BVOp("bvadd", off, lo)
	nlen := BVOp("bvsub", hi, lo)
	if isStr {
		fr.setReg(x, mkString(x.Type(), obj, noff, nlen))
		return
	}
	ncap := BVOp("bvsub", mx, lo)
	fr.setReg(x, mkSlice(x.Type(), obj, noff, nlen, ncap))
}

func (fr *Frame) execConvert(st *State, x *ssa.Convert) {
	v := fr.val(st, x.X)
	from, to := x.X.Type(), x.Type()
	switch {
	case isInteger(from) && isInteger(to):
		w, _, _ := basicWidth(to.Underlying().(*types.Basic))
		fr.setReg(x, scalar(to, Resize(v.Term(), w, isSigned(from))))
	case isString(from) && isByteSlice(to):
		// fresh copy
		obj := fr.newObject(st, "bytes")
		fr.copyInto(st, obj, BV(0, 64), v.Obj(), v.Off(), v.Len(), types.Typ[types.Uint8])
		fr.setReg(x, mkSlice(to, obj, BV(0, 64), v.Len(), v.Len()))
	case isByteSlice(from) && isString(to):
		obj := fr.newObject(st, "string")
		fr.copyInto(st, obj, BV(0, 64), v.Obj(), v.Off(), v.Len(), types.Typ[types.Uint8])
		// an empty conversion yields "" (nil object is fine as len==0)
		fr.setReg(x, mkString(to, obj, BV(0, 64), v.Len()))
	case isInteger(from) && isFloat(to), isFloat(from) && isInteger(to), isFloat(from) && isFloat(to):
		fr.top.note("float conversion abstracted")
		fr.setReg(x, fr.fresh("fconv", to))
	case isPointerLike(from) && isPointerLike(to):
		v.T = to
		fr.setReg(x, v)
	default:
		panic(unsupported(fmt.Sprintf("convert %s -> %s", from, to)))
	}
}

func isFloat(t types.Type) bool {
	b, ok := t.Underlying().(*types.Basic)
	return ok && b.Info()&types.IsFloat != 0
}

func isPointerLike(t types.Type) bool {
	switch u := t.Underlying().(type) {
	case *types.Pointer:
		return true
	case *types.Basic:
		return u.Kind() == types.UnsafePointer
	}
	return false
}

func isByteSlice(t types.Type) bool {
	s, ok := t.Underlying().(*types.Slice)
	return ok && isByteLike(s.Elem())
}

// copyInto makes obj[dOff+j] = src[sOff+j] for 0<=j<n (all components), other indices unchanged.
func (fr *Frame) copyInto(st *State, dObj, dOff, sObj, sOff, n Term, et types.Type) {
	l := fr.en.layout(et)
	for k := range l {
		old := fr.objArray(st, dObj, et, k)
		src := fr.objArray(st, sObj, et, k)
		old = fr.ctx.Def("old", old)
		src = fr.ctx.Def("src", src)
		na := fr.ctx.Fresh("cp", old.Sort)
		j := Term{"j!cp", SBV64}
		inr := And(BVCmp("bvsle", dOff, j), BVCmp("bvslt", j, BVOp("bvadd", dOff, n)))
		body := Eq(Select(na, j), Ite(inr, Select(src, BVOp("bvadd", sOff, BVOp("bvsub", j, dOff))), Select(old, j)))
		fr.assume(st, Forall([]Term{j}, body, Select(na, j)))
		fr.setObjArray(st, dObj, et, k, na)
	}
}

func (fr *Frame) execMakeInterface(st *State, x *ssa.MakeInterface) {
	v := fr.val(st, x.X)
	t := x.X.Type()
	tag := IntT(int64(fr.en.typeTag(t)))
	var ref Term
	switch t.Underlying().(type) {
	case *types.Pointer, *types.Map, *types.Chan:
		if v.K == KNormal {
			ref = v.Term()
		}
	}
	if ref.S == "" {
		// box the value
		ref = fr.newObject(st, "ibox")
		if v.K == KNormal {
			fr.storeBox(st, ref, t, v)
		} else if v.K == KClosure {
			fr.top.closures[ref.S] = v
		}
	}
	fr.setReg(x, Val{K: KNormal, T: x.Type(), C: []Term{tag, ref}})
}

func (fr *Frame) execTypeAssert(st *State, x *ssa.TypeAssert) {
	v := fr.val(st, x.X)
	at := x.AssertedType
	var ok Term
	var res Val
	if _, isIface := at.Underlying().(*types.Interface); isIface {
		// interface-to-interface: succeeds iff non-nil and the dynamic type implements it; we
		// decide statically for known tags where possible, else leave it open.
		ok = fr.ctx.Fresh("implements", SBool)
		fr.assume(st, Implies(ok, Not(Eq(v.C[0], IntT(0)))))
		res = Val{K: KNormal, T: at, C: []Term{v.C[0], v.C[1]}}
	} else {
		tag := IntT(int64(fr.en.typeTag(at)))
		ok = Eq(v.C[0], tag)
		switch at.Underlying().(type) {
		case *types.Pointer, *types.Map, *types.Chan:
			res = scalar(at, v.C[1])
		default:
			res = fr.loadBox(st, v.C[1], at)
		}
	}
	if x.CommaOk {
		okv := fr.ctx.Def("ok", ok)
		// on failure the value is the zero value
		z := fr.en.zero(at)
		m, good := iteVal(okv, res, z)
		if !good {
			panic(unsupported("typeassert merge"))
		}
		fr.regs[x] = Val{K: KTuple, Elems: []Val{m, scalar(types.Typ[types.Bool], okv)}}
		return
	}
	fr.oblige(st, "type-assert", fr.describe(x), ok, nil, x.Pos())
	fr.assume(st, ok)
	fr.setReg(x, res)
}

func (fr *Frame) execMakeSlice(st *State, x *ssa.MakeSlice) {
	ln := fr.idx64(fr.val(st, x.Len), x.Len.Type())
	cp := fr.idx64(fr.val(st, x.Cap), x.Cap.Type())
	g := And(BVCmp("bvsle", BV(0, 64), ln), BVCmp("bvsle", ln, cp), BVCmp("bvsle", cp, BV(maxObj, 64)))
	fr.oblige(st, "makeslice", fr.describe(x), g, nil, x.Pos())
	fr.assume(st, g)
	obj := fr.newObject(st, "mk")
	et := x.Type().Underlying().(*types.Slice).Elem()
	for k, c := range fr.en.layout(et) {
		as := ArrSort(SBV64, c.Sort)
		fr.setObjArray(st, obj, et, k, Term{fmt.Sprintf("((as const %s) %s)", as, c.Zero.S), as})
	}
	fr.setReg(x, mkSlice(x.Type(), obj, BV(0, 64), ln, cp))
}
