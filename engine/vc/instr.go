package vc

import (
	"fmt"
	"go/constant"
	"go/token"
	"go/types"
	"math/big"

	"golang.org/x/tools/go/ssa"
)

type bigInt struct{ v *big.Int }

// describe gives a short, source-level name for an SSA value (used in obligation names).
func (fr *Frame) describe(v ssa.Value) string {
	return describeVal(v, 0)
}

func describeVal(v ssa.Value, depth int) string {
	if depth > 4 {
		return v.Name()
	}
	switch x := v.(type) {
	case *ssa.Const:
		if x.Value == nil {
			return "nil"
		}
		s := x.Value.ExactString()
		if len(s) > 20 {
			s = s[:20]
		}
		return s
	case *ssa.Parameter:
		return x.Name()
	case *ssa.Alloc:
		return allocName(x)
	case *ssa.Global:
		return x.Name()
	case *ssa.UnOp:
		if x.Op == token.MUL {
			return describeVal(x.X, depth+1)
		}
		return x.Op.String() + describeVal(x.X, depth+1)
	case *ssa.FieldAddr:
		st := x.X.Type().Underlying().(*types.Pointer).Elem().Underlying().(*types.Struct)
		return describeVal(x.X, depth+1) + "." + st.Field(x.Field).Name()
	case *ssa.Field:
		st := x.X.Type().Underlying().(*types.Struct)
		return describeVal(x.X, depth+1) + "." + st.Field(x.Field).Name()
	case *ssa.IndexAddr:
		return describeVal(x.X, depth+1) + "[" + describeVal(x.Index, depth+1) + "]"
	case *ssa.Index:
		return describeVal(x.X, depth+1) + "[" + describeVal(x.Index, depth+1) + "]"
	case *ssa.Lookup:
		return describeVal(x.X, depth+1) + "[" + describeVal(x.Index, depth+1) + "]"
	case *ssa.BinOp:
		return describeVal(x.X, depth+1) + x.Op.String() + describeVal(x.Y, depth+1)
	case *ssa.Convert:
		return describeVal(x.X, depth+1)
	case *ssa.ChangeType:
		return describeVal(x.X, depth+1)
	case *ssa.Slice:
		s := describeVal(x.X, depth+1) + "["
		if x.Low != nil {
			s += describeVal(x.Low, depth+1)
		}
		s += ":"
		if x.High != nil {
			s += describeVal(x.High, depth+1)
		}
		return s + "]"
	case *ssa.Call:
		if f := x.Call.StaticCallee(); f != nil {
			return f.Name() + "()"
		}
		if x.Call.IsInvoke() {
			return x.Call.Method.Name() + "()"
		}
		if b, ok := x.Call.Value.(*ssa.Builtin); ok {
			if len(x.Call.Args) > 0 {
				return b.Name() + "(" + describeVal(x.Call.Args[0], depth+1) + ")"
			}
			return b.Name() + "()"
		}
		return "call"
	case *ssa.Extract:
		return describeVal(x.Tuple, depth+1) + fmt.Sprintf(".%d", x.Index)
	case *ssa.Function:
		return x.Name()
	case *ssa.TypeAssert:
		return describeVal(x.X, depth+1) + ".(" + typeName(x.AssertedType) + ")"
	}
	return v.Name()
}

func (fr *Frame) constVal(c *ssa.Const, st *State) Val {
	t := c.Type()
	if c.Value == nil {
		return fr.en.zero(t)
	}
	switch u := t.Underlying().(type) {
	case *types.Basic:
		switch {
		case u.Info()&types.IsBoolean != 0:
			if constant.BoolVal(c.Value) {
				return scalar(t, True)
			}
			return scalar(t, False)
		case u.Info()&types.IsString != 0:
			return fr.stringConst(st, t, constant.StringVal(c.Value))
		case u.Info()&types.IsInteger != 0:
			w, _, _ := basicWidth(u)
			bi, ok := new(big.Int).SetString(c.Value.ExactString(), 10)
			if !ok {
				panic(unsupported("integer constant " + c.Value.ExactString()))
			}
			if isWide(t) {
				return scalar(t, IntBig(bi))
			}
			return scalar(t, BVBig(bi, w))
		case u.Info()&types.IsFloat != 0:
			return scalar(t, fr.ctx.Const("fconst:"+c.Value.ExactString(), "F64"))
		}
	}
	panic(unsupported("constant of type " + t.String()))
}

// stringConst returns the (shared, immutable) object for a string constant.
func (fr *Frame) stringConst(st *State, t types.Type, s string) Val {
	top := fr.top
	if v, ok := top.strObjs[s]; ok {
		v.T = t
		return v
	}
	if s == "" {
		v := mkString(t, Nil, IntT(0), IntT(0))
		top.strObjs[s] = v
		return v
	}
	obj := fr.ctx.Fresh("str", SInt)
	fr.ctx.Assume(And(Eq(obj, IntT(int64(-5000-len(top.strObjs)))), IntCmp("<", top.stamp(obj), top.alloc0)))
	// content: the bytes live in the entry heap and string objects are never written
	if len(s) <= 64 {
		h := top.entryHeap(elemHeap(types.Typ[types.Uint8], ""), byteHeapSort)
		arr := Select(h, obj)
		var cs []Term
		for i := 0; i < len(s); i++ {
			cs = append(cs, Eq(Select(arr, IntT(int64(i))), BV(int64(s[i]), 8)))
		}
		fr.ctx.Assume(And(cs...))
		top.constStrs = append(top.constStrs, obj)
	}
	v := mkString(t, obj, IntT(0), IntT(int64(len(s))))
	top.strObjs[s] = v
	return v
}

// val evaluates an SSA operand.
func (fr *Frame) val(st *State, v ssa.Value) Val {
	switch x := v.(type) {
	case *ssa.Const:
		return fr.constVal(x, st)
	case *ssa.Global:
		return Val{K: KGlobalPtr, T: x.Type(), Glob: x}
	case *ssa.Function:
		return Val{K: KClosure, T: x.Type(), Fn: x}
	case *ssa.FreeVar:
		for i, fv := range fr.fn.FreeVars {
			if fv == x {
				return fr.binds[i]
			}
		}
		panic(unsupported("free variable not bound"))
	case *ssa.Builtin:
		panic(unsupported("builtin used as value"))
	}
	r, ok := fr.regs[v]
	if !ok {
		panic(unsupported(fmt.Sprintf("use of undefined register %s in %s", v.Name(), fr.fn.Name())))
	}
	return r
}

func (fr *Frame) setReg(v ssa.Value, x Val) {
	if x.K == KNormal {
		for i := range x.C {
			x.C[i] = fr.ctx.Def(v.Name(), x.C[i])
		}
	}
	fr.regs[v] = x
}

func (fr *Frame) execInstr(st *State, instr ssa.Instruction) {
	switch x := instr.(type) {
	case *ssa.DebugRef:
		return
	case *ssa.Alloc:
		fr.execAlloc(st, x)
	case *ssa.Store:
		if isDeferStack(x.Val.Type()) {
			return
		}
		p := fr.val(st, x.Addr)
		v := fr.val(st, x.Val)
		if nn := ptrNonNil(p); nn.S != "true" {
			fr.oblige(st, "nil-deref", fr.describe(x.Addr), nn, nil, x.Pos())
			fr.assume(st, nn)
		}
		fr.store(st, p, x.Val.Type(), v)
		fr.ghostOnAssign(st, x)
	case *ssa.UnOp:
		fr.execUnOp(st, x)
	case *ssa.BinOp:
		a := fr.val(st, x.X)
		b := fr.val(st, x.Y)
		fr.setReg(x, fr.binop(st, x.Op, a, b, x.X.Type(), x.Type(), x))
	case *ssa.FieldAddr:
		fr.execFieldAddr(st, x)
	case *ssa.Field:
		s := fr.val(st, x.X)
		fr.setReg(x, fr.en.structField(s, x.Field))
	case *ssa.IndexAddr:
		fr.execIndexAddr(st, x)
	case *ssa.Index:
		fr.execIndex(st, x)
	case *ssa.Slice:
		fr.execSlice(st, x)
	case *ssa.Convert:
		fr.execConvert(st, x)
	case *ssa.ChangeType:
		v := fr.val(st, x.X)
		v.T = x.Type()
		fr.setReg(x, v)
	case *ssa.ChangeInterface:
		v := fr.val(st, x.X)
		v.T = x.Type()
		fr.setReg(x, v)
	case *ssa.MakeInterface:
		fr.execMakeInterface(st, x)
	case *ssa.TypeAssert:
		fr.execTypeAssert(st, x)
	case *ssa.Extract:
		t := fr.val(st, x.Tuple)
		if t.K != KTuple {
			panic(unsupported("extract from non-tuple"))
		}
		fr.regs[x] = t.Elems[x.Index]
	case *ssa.Call:
		res := fr.execCall(st, x.Common(), x, x.Pos())
		if res != nil {
			fr.setRegTuple(x, res)
		}
	case *ssa.Defer:
		fr.execDefer(st, x)
	case *ssa.RunDefers:
		fr.runDefers(st, x)
	case *ssa.Go:
		fr.execGo(st, x)
	case *ssa.MakeClosure:
		fn := x.Fn.(*ssa.Function)
		c := Val{K: KClosure, T: x.Type(), Fn: fn}
		for _, b := range x.Bindings {
			c.Binds = append(c.Binds, fr.val(st, b))
		}
		fr.regs[x] = c
	case *ssa.MakeSlice:
		fr.execMakeSlice(st, x)
	case *ssa.MakeMap:
		ref := fr.newObject(st, "map")
		fr.mapInitEmpty(st, ref, x.Type())
		fr.setReg(x, scalar(x.Type(), ref))
	case *ssa.MakeChan:
		ref := fr.newObject(st, "chan")
		fr.setReg(x, scalar(x.Type(), ref))
	case *ssa.Lookup:
		fr.execLookup(st, x)
	case *ssa.MapUpdate:
		fr.execMapUpdate(st, x)
	case *ssa.Phi:
		panic(unsupported("phi in naive form"))
	case *ssa.Select:
		fr.execSelect(st, x)
	case *ssa.Send:
		fr.top.note("channel send: only the package's channel invariant is checked, the transfer itself is not modelled, in " + fr.fn.Name())
		fr.chanInv(st, x.Chan.Type().Underlying().(*types.Chan).Elem(), fr.val(st, x.X), True, true, x.Pos())
		// "callsite send:" / "oncall send:" hooks: arg0 is the channel, arg1 the value sent
		fr.callHooks(st, "send", []Val{fr.val(st, x.Chan), fr.val(st, x.X)}, x.Pos())
	case *ssa.Range:
		if _, ok := x.X.Type().Underlying().(*types.Map); !ok {
			panic(unsupported("range over string"))
		}
		fr.regs[x] = Val{K: KTuple, Elems: []Val{fr.val(st, x.X)}}
	case *ssa.Next:
		fr.execNext(st, x)
	case *ssa.SliceToArrayPointer:
		panic(unsupported("slice to array pointer"))
	case *ssa.MultiConvert:
		panic(unsupported("multiconvert"))
	default:
		panic(unsupported(fmt.Sprintf("instruction %T", instr)))
	}
}

func (fr *Frame) setRegTuple(x *ssa.Call, res []Val) {
	sig := x.Call.Signature()
	if b, ok := x.Call.Value.(*ssa.Builtin); ok {
		if b.Name() == "ssa:deferstack" {
			fr.regs[x] = res[0]
			return
		}
		if len(res) == 1 {
			fr.setReg(x, res[0])
		}
		return
	}
	switch sig.Results().Len() {
	case 0:
	case 1:
		fr.setReg(x, res[0])
	default:
		fr.regs[x] = Val{K: KTuple, T: sig.Results(), Elems: res}
	}
}

func (fr *Frame) execAlloc(st *State, x *ssa.Alloc) {
	et := x.Type().(*types.Pointer).Elem()
	switch u := et.Underlying().(type) {
	case *types.Struct:
		ref := fr.newObject(st, "obj_"+allocName(x))
		fr.storeStruct(st, ref, et, fr.en.zero(et))
		fr.setReg(x, scalar(x.Type(), ref))
		if x.Comment != "" {
			fr.localNames[x.Comment] = append(fr.localNames[x.Comment], x)
		}
		return
	case *types.Array:
		ref := fr.newObject(st, "arr_"+allocName(x))
		fr.storeArray(st, ref, u, fr.en.zero(et))
		fr.setReg(x, scalar(x.Type(), ref))
		if x.Comment != "" {
			fr.localNames[x.Comment] = append(fr.localNames[x.Comment], x)
		}
		return
	}
	if et.String() == "$ssa.deferStack" || isDeferStack(et) {
		fr.regs[x] = Val{K: KCellPtr, T: x.Type(), Cell: -1}
		return
	}
	id, ok := fr.cellOf[x]
	if !ok {
		fr.top.ncell++
		id = fr.top.ncell
		fr.cellOf[x] = id
		fr.top.cellT[id] = et
		if x.Comment != "" {
			fr.localNames[x.Comment] = append(fr.localNames[x.Comment], x)
		}
	}
	st.cells[id] = fr.en.zero(et)
	fr.regs[x] = Val{K: KCellPtr, T: x.Type(), Cell: id}
}

func isDeferStack(t types.Type) bool {
	return typeName(t) == "$ssa.deferStack" || t.String() == "deferStack"
}

func (fr *Frame) execUnOp(st *State, x *ssa.UnOp) {
	switch x.Op {
	case token.MUL: // load
		if isDeferStack(x.Type()) {
			fr.regs[x] = Val{K: KNormal, T: x.Type()}
			return
		}
		p := fr.val(st, x.X)
		if p.K == KCellPtr && p.Cell == -1 {
			fr.regs[x] = Val{K: KNormal, T: x.Type()}
			return
		}
		if nn := ptrNonNil(p); nn.S != "true" {
			fr.oblige(st, "nil-deref", fr.describe(x.X), nn, nil, x.Pos())
			fr.assume(st, nn)
		}
		v := fr.load(st, p, x.Type())
		v.T = x.Type()
		if v.K == KNormal {
			fr.setReg(x, v)
		} else {
			fr.regs[x] = v
		}
	case token.NOT:
		fr.setReg(x, scalar(x.Type(), Not(fr.val(st, x.X).Term())))
	case token.SUB:
		a := fr.val(st, x.X).Term()
		if isWide(x.Type()) {
			fr.setReg(x, scalar(x.Type(), wrapInt(ISub(IntT(0), a), isSigned(x.Type()))))
		} else {
			fr.setReg(x, scalar(x.Type(), app(a.Sort, "bvneg", a)))
		}
	case token.XOR:
		a := fr.val(st, x.X).Term()
		if isWide(x.Type()) {
			if isSigned(x.Type()) {
				fr.setReg(x, scalar(x.Type(), ISub(ISub(IntT(0), a), IntT(1))))
			} else {
				fr.setReg(x, scalar(x.Type(), ISub(maxU64, a)))
			}
		} else {
			fr.setReg(x, scalar(x.Type(), app(a.Sort, "bvnot", a)))
		}
	case token.ARROW:
		fr.execRecv(st, x)
	default:
		panic(unsupported("unary op " + x.Op.String()))
	}
}

// valEq compares two values of static type t.
func (fr *Frame) valEq(st *State, a, b Val, t types.Type) Term {
	if a.K != KNormal || b.K != KNormal {
		if a.K == b.K && sameVal(a, b) {
			return True
		}
		// pointer comparison against nil
		if a.K != KNormal && b.K == KNormal && len(b.C) == 1 && b.C[0].S == "0" {
			return Not(ptrNonNil(a))
		}
		if b.K != KNormal && a.K == KNormal && len(a.C) == 1 && a.C[0].S == "0" {
			return Not(ptrNonNil(b))
		}
		if a.K == KClosure || b.K == KClosure {
			// func == nil
			if a.K == KClosure && b.K == KNormal {
				return False
			}
			if b.K == KClosure && a.K == KNormal {
				return False
			}
		}
		panic(unsupported("comparison of pointer-like values"))
	}
	if a.K == KNormal && b.K == KNormal && len(a.C) != len(b.C) {
		panic(unsupported("comparison of values with different layouts"))
	}
	switch u := t.Underlying().(type) {
	case *types.Slice:
		// Go only allows comparison with nil; in contracts == on slices is header identity
		if b.C[0].S == "0" && b.C[2].S == "0" {
			return Eq(a.C[0], Nil)
		}
		if a.C[0].S == "0" && a.C[2].S == "0" {
			return Eq(b.C[0], Nil)
		}
		return And(Eq(a.C[0], b.C[0]), Eq(a.C[1], b.C[1]), Eq(a.C[2], b.C[2]), Eq(a.C[3], b.C[3]))
	case *types.Basic:
		if isString(t) {
			return fr.stringEq(st, a, b)
		}
	case *types.Interface:
		// identical dynamic type and value (pointer identity / sentinel identity)
		return And(Eq(a.C[0], b.C[0]), Eq(a.C[1], b.C[1]))
	case *types.Array:
		n := u.Len()
		if n <= 32 {
			var cs []Term
			for k := range a.C {
				for i := int64(0); i < n; i++ {
					cs = append(cs, Eq(Select(a.C[k], IntT(i)), Select(b.C[k], IntT(i))))
				}
			}
			return And(cs...)
		}
		panic(unsupported("comparison of large arrays"))
	case *types.Signature:
		if b.C[0].S == "0" {
			return Eq(a.C[0], Nil)
		}
	}
	if len(a.C) != len(b.C) {
		panic(unsupported("comparison of values with different layouts"))
	}
	var cs []Term
	for i := range a.C {
		cs = append(cs, Eq(a.C[i], b.C[i]))
	}
	return And(cs...)
}

func (fr *Frame) execFieldAddr(st *State, x *ssa.FieldAddr) {
	base := fr.val(st, x.X)
	pt := x.X.Type().Underlying().(*types.Pointer)
	stt := pt.Elem().Underlying().(*types.Struct)
	sname := typeName(pt.Elem())
	ft := stt.Field(x.Field).Type()
	switch base.K {
	case KNormal:
		ref := base.Term()
		nn := Not(Eq(ref, Nil))
		fr.oblige(st, "nil-deref", fr.describe(x.X)+"."+stt.Field(x.Field).Name(), nn, nil, x.Pos())
		fr.assume(st, nn)
		switch ft.Underlying().(type) {
		case *types.Struct, *types.Array:
			fr.setReg(x, scalar(x.Type(), fr.subRef(ref, sname, stt, x.Field)))
		default:
			named, _ := pt.Elem().(*types.Named)
			fr.regs[x] = Val{K: KFieldPtr, T: x.Type(), Base: fr.ctx.Def("ref", ref), SType: named, SName: sname, Field: x.Field}
			if named == nil {
				panic(unsupported("field address in anonymous struct"))
			}
		}
	case KElemPtr:
		// pointer to a struct element of a slice: narrow the component range
		lo, hi := base.CLo, base.CHi
		if hi < 0 {
			lo, hi = 0, len(fr.en.layout(base.ElemT))
		}
		flo, fhi := fr.en.fieldRange(stt, x.Field)
		_ = hi
		nb := base
		nb.T = x.Type()
		nb.CLo, nb.CHi = lo+flo, lo+fhi
		fr.regs[x] = nb
	default:
		panic(unsupported("field address through unsupported pointer"))
	}
}

func isFloat(t types.Type) bool {
	b, ok := t.Underlying().(*types.Basic)
	return ok && b.Info()&types.IsFloat != 0
}

func isPointerLike(t types.Type) bool {
	switch u := t.Underlying().(type) {
	case *types.Pointer:
		return true
	case *types.Basic:
		return u.Kind() == types.UnsafePointer
	}
	return false
}

func isByteSlice(t types.Type) bool {
	s, ok := t.Underlying().(*types.Slice)
	return ok && isByteLike(s.Elem())
}

func (fr *Frame) execMakeInterface(st *State, x *ssa.MakeInterface) {
	v := fr.val(st, x.X)
	t := x.X.Type()
	tag := IntT(int64(fr.en.typeTag(t)))
	var ref Term
	switch t.Underlying().(type) {
	case *types.Pointer, *types.Map, *types.Chan:
		if v.K == KNormal {
			ref = v.Term()
		}
	}
	if ref.S == "" {
		// box the value
		ref = fr.newObject(st, "ibox")
		if v.K == KNormal {
			fr.storeBox(st, ref, t, v)
		} else if v.K == KClosure {
			fr.top.closures[ref.S] = v
		}
	}
	fr.setReg(x, Val{K: KNormal, T: x.Type(), C: []Term{tag, ref}})
}

func (fr *Frame) execTypeAssert(st *State, x *ssa.TypeAssert) {
	v := fr.val(st, x.X)
	at := x.AssertedType
	var ok Term
	var res Val
	if _, isIface := at.Underlying().(*types.Interface); isIface {
		// interface-to-interface: succeeds iff non-nil and the dynamic type implements it; we
		// decide statically for known tags where possible, else leave it open.
		ok = fr.ctx.Fresh("implements", SBool)
		fr.assume(st, Implies(ok, Not(Eq(v.C[0], IntT(0)))))
		res = Val{K: KNormal, T: at, C: []Term{v.C[0], v.C[1]}}
	} else {
		tag := IntT(int64(fr.en.typeTag(at)))
		ok = Eq(v.C[0], tag)
		switch at.Underlying().(type) {
		case *types.Pointer, *types.Map, *types.Chan:
			res = scalar(at, v.C[1])
		default:
			res = fr.loadBox(st, v.C[1], at)
		}
	}
	if x.CommaOk {
		okv := fr.ctx.Def("ok", ok)
		// on failure the value is the zero value
		z := fr.en.zero(at)
		m, good := iteVal(okv, res, z)
		if !good {
			panic(unsupported("typeassert merge"))
		}
		fr.regs[x] = Val{K: KTuple, Elems: []Val{m, scalar(types.Typ[types.Bool], okv)}}
		return
	}
	fr.oblige(st, "type-assert", fr.describe(x), ok, nil, x.Pos())
	fr.assume(st, ok)
	fr.setReg(x, res)
}


// ghostOnAssign runs the ghost updates attached to an assignment of a named local.
func (fr *Frame) ghostOnAssign(st *State, x *ssa.Store) {
	if fr.parent != nil || fr.fc == nil || len(fr.fc.GhostUps) == 0 {
		return
	}
	a, ok := x.Addr.(*ssa.Alloc)
	if !ok || a.Comment == "" {
		return
	}
	for _, gu := range fr.fc.GhostUps {
		if gu.OnCall != "" || gu.Local != a.Comment {
			continue
		}
		if gu.Loop != 0 && !fr.blockInLoop(x.Block(), gu.Loop) {
			continue
		}
		sc := fr.loopScope(st, st.alloc)
		v := fr.evalExpr(sc, gu.E)
		if old, ok := st.ghost[gu.Name]; ok {
			v = fr.coerce(v, old)
		}
		st.ghost[gu.Name] = v
	}
}

func (fr *Frame) blockInLoop(b *ssa.BasicBlock, ordinal int) bool {
	for _, li := range fr.loops {
		if li.ordinal == ordinal && li.blocks[b] {
			return true
		}
	}
	return false
}
