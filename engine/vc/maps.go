package vc

import (
	"strings"
	"go/token"
	"fmt"
	"go/types"

	"golang.org/x/tools/go/ssa"
)

// Maps: per map type two heaps, has : Ref -> (Key -> Bool) and val#k : Ref -> (Key -> V_k).
// Key sorts: integers use their bit-vector; byte arrays of <= 64 bytes use one wide
// bit-vector (exact); strings use an uninterpreted key function of (content, off, len)
// (sound: equal arguments give equal keys, nothing else is known).

func (fr *Frame) mapKeySort(mt *types.Map) string {
	kt := mt.Key()
	switch u := kt.Underlying().(type) {
	case *types.Basic:
		if isString(kt) {
			// a string key is (length, canonical content): content shifted to offset 0 and zero
			// outside [0,len) so that key equality is exactly string equality (extensionality)
			fr.ctx.Raw("sort:StrKey", "(declare-datatypes ((StrKey 0)) (((mkkey (klen Int) (karr (Array Int (_ BitVec 8)))))))")
			return "StrKey"
		}
		if w, _, ok := basicWidth(u); ok {
			return BVSort(w)
		}
	case *types.Array:
		if isByteLike(u.Elem()) && u.Len() <= 64 {
			return BVSort(int(u.Len()) * 8)
		}
	case *types.Pointer:
		return SInt
	}
	panic(unsupported("map key type " + kt.String()))
}

func (fr *Frame) mapKey(st *State, mt *types.Map, k Val) Term {
	if k.K == KKey {
		return k.C[0]
	}
	kt := mt.Key()
	switch u := kt.Underlying().(type) {
	case *types.Basic:
		if isString(kt) {
			fr.mapKeySort(mt)
			return fr.strKey(st, k)
		}
		return k.Term()
	case *types.Array:
		n := int(u.Len())
		var bs []Term
		for i := 0; i < n; i++ {
			bs = append(bs, Select(k.C[0], IntT(int64(i))))
		}
		if n == 1 {
			return bs[0]
		}
		return app(BVSort(8*n), "concat", bs...)
	case *types.Pointer:
		return k.Term()
	}
	panic(unsupported("map key type " + kt.String()))
}

func mapHeapHas(t types.Type) string          { return "MapHas:" + typeName(t.Underlying()) }
func mapHeapVal(t types.Type, p string) string { return "MapVal:" + typeName(t.Underlying()) + p }

func (fr *Frame) mapHas(st *State, ref Term, mt *types.Map, t types.Type, k Term) Term {
	ks := fr.mapKeySort(mt)
	h := fr.heap(st, mapHeapHas(t), ArrSort(SInt, ArrSort(ks, SBool)))
	return And(Not(Eq(ref, Nil)), Select(Select(h, ref), k)) // a nil map has no entries
}

func (fr *Frame) mapGet(st *State, ref Term, mt *types.Map, t types.Type, k Term) Val {
	ks := fr.mapKeySort(mt)
	l := fr.en.layout(mt.Elem())
	has := fr.mapHas(st, ref, mt, t, k)
	v := Val{K: KNormal, T: mt.Elem(), C: make([]Term, len(l))}
	for i, c := range l {
		h := fr.heap(st, mapHeapVal(t, c.Path), ArrSort(SInt, ArrSort(ks, c.Sort)))
		v.C[i] = Ite(has, Select(Select(h, ref), k), c.Zero)
	}
	return v
}

func (fr *Frame) mapSet(st *State, ref Term, mt *types.Map, t types.Type, k Term, v Val) {
	ks := fr.mapKeySort(mt)
	hn := mapHeapHas(t)
	h := fr.heap(st, hn, ArrSort(SInt, ArrSort(ks, SBool)))
	fr.setHeap(st, hn, Store(h, ref, Store(Select(h, ref), k, True)))
	l := fr.en.layout(mt.Elem())
	if v.K != KNormal || len(v.C) != len(l) {
		panic(unsupported("map value of unsupported shape"))
	}
	for i, c := range l {
		vn := mapHeapVal(t, c.Path)
		vh := fr.heap(st, vn, ArrSort(SInt, ArrSort(ks, c.Sort)))
		fr.setHeap(st, vn, Store(vh, ref, Store(Select(vh, ref), k, v.C[i])))
	}
}

func (fr *Frame) mapDelete(st *State, ref Term, mt *types.Map, t types.Type, k Term) {
	ks := fr.mapKeySort(mt)
	hn := mapHeapHas(t)
	h := fr.heap(st, hn, ArrSort(SInt, ArrSort(ks, SBool)))
	fr.setHeap(st, hn, Store(h, ref, Store(Select(h, ref), k, False)))
}

func (fr *Frame) mapInitEmpty(st *State, ref Term, t types.Type) {
	mt := t.Underlying().(*types.Map)
	ks := fr.mapKeySort(mt)
	hn := mapHeapHas(t)
	as := ArrSort(ks, SBool)
	h := fr.heap(st, hn, ArrSort(SInt, as))
	fr.setHeap(st, hn, Store(h, ref, Term{fmt.Sprintf("((as const %s) false)", as), as}))
}

func (fr *Frame) execLookup(st *State, x *ssa.Lookup) {
	switch u := x.X.Type().Underlying().(type) {
	case *types.Map:
		m := fr.val(st, x.X)
		// "callsite mapread_<map>:" hooks: arg0 is the key looked up
		fr.callHooks(st, "mapread_"+fr.describe(x.X), []Val{fr.val(st, x.Index)}, x.Pos())
		k := fr.mapKey(st, u, fr.val(st, x.Index))
		v := fr.mapGet(st, m.Term(), u, x.X.Type(), k)
		fr.assumeWF(st, v)
		if x.CommaOk {
			has := fr.mapHas(st, m.Term(), u, x.X.Type(), k)
			fr.regs[x] = Val{K: KTuple, Elems: []Val{v, scalar(types.Typ[types.Bool], fr.ctx.Def("has", has))}}
			return
		}
		fr.setReg(x, v)
	case *types.Basic: // string index
		s := fr.val(st, x.X)
		idx := fr.idx64(fr.val(st, x.Index), x.Index.Type())
		fr.boundsCheck(st, "index", fr.describe(x), idx, s.Len(), x.Pos())
		h := fr.heap(st, elemHeap(types.Typ[types.Uint8], ""), byteHeapSort)
		fr.setReg(x, scalar(x.Type(), Select(Select(h, s.Obj()), IAdd(s.Off(), idx))))
	default:
		panic(unsupported("lookup on " + x.X.Type().String()))
	}
}

func (fr *Frame) execMapUpdate(st *State, x *ssa.MapUpdate) {
	mt := x.Map.Type().Underlying().(*types.Map)
	m := fr.val(st, x.Map)
	nn := Not(Eq(m.Term(), Nil))
	fr.oblige(st, "nil-map-write", fr.describe(x.Map), nn, nil, x.Pos())
	fr.assume(st, nn)
	// "callsite mapwrite_<map>:" hooks: arg0 is the key, arg1 the value stored
	fr.callHooks(st, "mapwrite_"+fr.describe(x.Map), []Val{fr.val(st, x.Key), fr.val(st, x.Value)}, x.Pos())
	k := fr.mapKey(st, mt, fr.val(st, x.Key))
	fr.mapSet(st, m.Term(), mt, x.Map.Type(), k, fr.val(st, x.Value))
}

// ----- channels (abstracted) ----------------------------------------------------

func (fr *Frame) execRecv(st *State, x *ssa.UnOp) {
	ct := x.X.Type().Underlying().(*types.Chan)
	v := fr.fresh("recv", ct.Elem())
	fr.assumeWF(st, v)
	fr.top.note("channel receive abstracted: received value unconstrained (well-formed) in " + fr.fn.Name())
	if x.CommaOk {
		ok := fr.ctx.Fresh("recvok", SBool)
		fr.chanInv(st, ct.Elem(), v, ok, false, x.Pos())
		fr.regs[x] = Val{K: KTuple, Elems: []Val{v, scalar(types.Typ[types.Bool], ok)}}
		return
	}
	fr.chanInv(st, ct.Elem(), v, True, false, x.Pos())
	fr.setReg(x, v)
}

// isLocalTypeOf reports whether t is the named type tname declared inside the function called fname, and the
// current function is that function or one of its closures.
func (fr *Frame) isLocalTypeOf(t types.Type, fname, tname string) bool {
	n, ok := t.(*types.Named)
	if !ok || n.Obj().Name() != tname || n.Obj().Pkg() == nil || n.Obj().Parent() == n.Obj().Pkg().Scope() {
		return false
	}
	f := fr.fn
	for f.Parent() != nil {
		f = f.Parent()
	}
	return f.Name() == fname
}

// chanInv applies the package's channel invariants for element type et to value v:
// assumed (under cond) for a received value, a proof obligation for a sent one.
func (fr *Frame) chanInv(st *State, et types.Type, v Val, cond Term, send bool, pos token.Pos) {
	if fr.fn.Pkg == nil {
		return
	}
	pkg := fr.fn.Pkg.Pkg
	for _, ci := range fr.en.CS.ChanInvs {
		if ci.PkgPath != pkg.Path() {
			continue
		}
		if i := strings.LastIndex(ci.Elem, "."); i > 0 && !strings.Contains(ci.Elem, "/") && !strings.HasPrefix(ci.Elem, "*") && fr.isLocalTypeOf(et, ci.Elem[:i], ci.Elem[i+1:]) {
			// "<function>.<type>": a type declared inside that function (used by it and its closures)
		} else {
			t := fr.en.parseType(pkg, ci.Elem)
			if t == nil || !types.Identical(t, et) {
				continue
			}
		}
		sc := &Scope{fr: fr, st: st, old: st, vars: map[string]Val{"v": v}, entry: map[string]Val{}, pkg: pkg}
		g := fr.evalBool(sc, ci.E)
		if send {
			cl := &Clause{Kind: "chaninv", Text: ci.Text, E: ci.E}
			fr.oblige(st, "chaninv", "send", g, cl, pos)
		} else {
			fr.assume(st, Implies(cond, g))
			fr.top.trusted["channel invariant assumed at receives (checked at sends in functions under contract): "+ci.Text] = true
		}
	}
}

func (fr *Frame) execSelect(st *State, x *ssa.Select) {
	// result tuple: (index int, recvOk bool, r_0 T_0, ...)
	fr.top.note("select abstracted as nondeterministic choice in " + fr.fn.Name())
	idx := fr.ctx.Fresh("selidx", SInt)
	n := int64(len(x.States))
	lo := int64(0)
	if !x.Blocking {
		lo = -1
	}
	fr.assume(st, InRange(idx, IntT(lo), IntT(n)))
	elems := []Val{scalar(types.Typ[types.Int], idx), scalar(types.Typ[types.Bool], fr.ctx.Fresh("selok", SBool))}
	var sends []int
	for k, s := range x.States {
		if s.Dir == types.RecvOnly {
			ct := s.Chan.Type().Underlying().(*types.Chan)
			v := fr.fresh("selrecv", ct.Elem())
			fr.assumeWF(st, v)
			fr.chanInv(st, ct.Elem(), v, True, false, x.Pos())
			elems = append(elems, v)
		} else if s.Send != nil {
			ct := s.Chan.Type().Underlying().(*types.Chan)
			fr.chanInv(st, ct.Elem(), fr.val(st, s.Send), True, true, x.Pos())
			sends = append(sends, k)
		}
	}
	fr.regs[x] = Val{K: KTuple, Elems: elems}
	// send cases: the "send" hooks fire under the condition that this case was chosen
	for _, k := range sends {
		s := x.States[k]
		saved := st.pc
		chosen := Eq(idx, IntT(int64(k)))
		st.pc = fr.ctx.Def("pc", And(saved, chosen))
		fr.top.hookCond = chosen
		fr.callHooks(st, "send", []Val{fr.val(st, s.Chan), fr.val(st, s.Send)}, x.Pos())
		fr.top.hookCond = Term{}
		st.pc = saved
	}
}

// strKey builds the canonical key of a string / byte-slice value.
func (fr *Frame) strKey(st *State, k Val) Term {
	h := fr.heap(st, elemHeap(types.Typ[types.Uint8], ""), byteHeapSort)
	// canonB(a, off, len): the bytes a[off..off+len) moved to 0..len, zero elsewhere. A pure term
	// (usable under quantifiers; equal arguments give syntactically equal keys).
	fr.ctx.Raw("fun:canonB", "(declare-fun canonB ((Array Int (_ BitVec 8)) Int Int) (Array Int (_ BitVec 8)))\n"+
		"(assert (forall ((a!c (Array Int (_ BitVec 8))) (o!c Int) (l!c Int) (j!c Int)) (! (= (select (canonB a!c o!c l!c) j!c) (ite (and (<= 0 j!c) (< j!c l!c)) (select a!c (+ o!c j!c)) #x00)) :pattern ((select (canonB a!c o!c l!c) j!c)))))")
	c := app(ArrSort(SInt, SBV8), "canonB", Select(h, k.Obj()), k.Off(), k.Len())
	return Term{"(mkkey " + k.Len().S + " " + c.S + ")", "StrKey"}
}

// execNext advances a map iterator: whether another entry exists is nondeterministic; when it
// does, the key is some key present in the map (as of now) and the value is its current value.
// Order and "each key once" are not modelled.
func (fr *Frame) execNext(st *State, x *ssa.Next) {
	rng, ok := x.Iter.(*ssa.Range)
	if !ok || x.IsString {
		panic(unsupported("range over string"))
	}
	mt := rng.X.Type().Underlying().(*types.Map)
	m := fr.regs[rng].Elems[0]
	okT := fr.ctx.Fresh("nextok", SBool)
	kv := fr.fresh("rk", mt.Key())
	fr.assumeWF(st, kv)
	kt := fr.mapKey(st, mt, kv)
	vv := fr.mapGet(st, m.Term(), mt, rng.X.Type(), kt)
	fr.assumeWF(st, vv)
	has := fr.mapHas(st, m.Term(), mt, rng.X.Type(), kt)
	fr.assume(st, Implies(okT, And(Not(Eq(m.Term(), Nil)), has)))
	fr.top.note("range over a map in " + fr.fn.Name() + ": each step yields some present key (order and once-only not modelled)")
	fr.regs[x] = Val{K: KTuple, Elems: []Val{scalar(types.Typ[types.Bool], okT), kv, vv}}
}
