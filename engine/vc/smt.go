package vc

import (
	"fmt"
	"math/big"
	"regexp"
	"strings"
)

// Sorts are SMT-LIB sort strings.
const (
	SBool = "Bool"
	SInt  = "Int" // object references and tags
	SBV8  = "(_ BitVec 8)"
	SBV64 = "(_ BitVec 64)"
)

func BVSort(w int) string { return fmt.Sprintf("(_ BitVec %d)", w) }

func ArrSort(idx, elem string) string { return "(Array " + idx + " " + elem + ")" }

// sortWidth returns the bit-vector width of a sort, or 0.
func sortWidth(s string) int {
	var w int
	if _, err := fmt.Sscanf(s, "(_ BitVec %d)", &w); err == nil {
		return w
	}
	return 0
}

// Term is an SMT-LIB term with its sort.
type Term struct {
	S    string
	Sort string
}

func (t Term) String() string { return t.S }

var (
	True  = Term{"true", SBool}
	False = Term{"false", SBool}
	Nil   = Term{"0", SInt}
)

func BV(v int64, w int) Term {
	b := big.NewInt(v)
	return BVBig(b, w)
}

func BVBig(v *big.Int, w int) Term {
	m := new(big.Int).Lsh(big.NewInt(1), uint(w))
	x := new(big.Int).Mod(v, m)
	return Term{fmt.Sprintf("(_ bv%s %d)", x.String(), w), BVSort(w)}
}

func IntT(v int64) Term {
	if v < 0 {
		return Term{fmt.Sprintf("(- %d)", -v), SInt}
	}
	return Term{fmt.Sprintf("%d", v), SInt}
}

func app(sort string, op string, args ...Term) Term {
	var sb strings.Builder
	sb.WriteByte('(')
	sb.WriteString(op)
	for _, a := range args {
		sb.WriteByte(' ')
		sb.WriteString(a.S)
	}
	sb.WriteByte(')')
	return Term{sb.String(), sort}
}

func Not(a Term) Term {
	switch a.S {
	case "true":
		return False
	case "false":
		return True
	}
	return app(SBool, "not", a)
}

func And(ts ...Term) Term {
	var out []Term
	for _, t := range ts {
		if t.S == "true" {
			continue
		}
		if t.S == "false" {
			return False
		}
		out = append(out, t)
	}
	switch len(out) {
	case 0:
		return True
	case 1:
		return out[0]
	}
	return app(SBool, "and", out...)
}

func Or(ts ...Term) Term {
	var out []Term
	for _, t := range ts {
		if t.S == "false" {
			continue
		}
		if t.S == "true" {
			return True
		}
		out = append(out, t)
	}
	switch len(out) {
	case 0:
		return False
	case 1:
		return out[0]
	}
	return app(SBool, "or", out...)
}

func Implies(a, b Term) Term {
	if a.S == "true" {
		return b
	}
	if a.S == "false" || b.S == "true" {
		return True
	}
	return app(SBool, "=>", a, b)
}

func Eq(a, b Term) Term {
	if a.S == b.S {
		return True
	}
	if a.Sort != b.Sort {
		panic(fmt.Sprintf("Eq sort mismatch: %s:%s vs %s:%s", a.S, a.Sort, b.S, b.Sort))
	}
	return app(SBool, "=", a, b)
}

func Ite(c, a, b Term) Term {
	if c.S == "true" {
		return a
	}
	if c.S == "false" {
		return b
	}
	if a.S == b.S {
		return a
	}
	if a.Sort != b.Sort {
		panic(fmt.Sprintf("Ite sort mismatch: %s:%s vs %s:%s", a.S, a.Sort, b.S, b.Sort))
	}
	return app(a.Sort, "ite", c, a, b)
}

func Select(arr, idx Term) Term {
	// (Array I E)
	return app(arrElem(arr.Sort), "select", arr, idx)
}

func Store(arr, idx, v Term) Term {
	if arrElem(arr.Sort) != v.Sort {
		panic(fmt.Sprintf("Store sort mismatch: arr %s val %s:%s", arr.Sort, v.S, v.Sort))
	}
	return app(arr.Sort, "store", arr, idx, v)
}

// arrElem/arrIdx split an array sort.
func arrParts(s string) (string, string) {
	if !strings.HasPrefix(s, "(Array ") {
		panic("not an array sort: " + s)
	}
	body := s[len("(Array ") : len(s)-1]
	// first sort token
	depth := 0
	for i := 0; i < len(body); i++ {
		switch body[i] {
		case '(':
			depth++
		case ')':
			depth--
		case ' ':
			if depth == 0 {
				return body[:i], body[i+1:]
			}
		}
	}
	panic("bad array sort: " + s)
}

func arrElem(s string) string { _, e := arrParts(s); return e }
func arrIdx(s string) string  { i, _ := arrParts(s); return i }

// i2bArg returns X when t is (i2b_W X).
func i2bArg(t Term) string {
	if !strings.HasPrefix(t.S, "(i2b_") {
		return ""
	}
	i := strings.Index(t.S, " ")
	if i < 0 {
		return ""
	}
	return t.S[i+1 : len(t.S)-1]
}

func isZeroBV(t Term) bool { return strings.HasPrefix(t.S, "(_ bv0 ") }

func BVOp(op string, a, b Term) Term {
	if a.Sort != b.Sort {
		panic(fmt.Sprintf("BVOp %s sort mismatch: %s:%s vs %s:%s", op, a.S, a.Sort, b.S, b.Sort))
	}
	// int2bv is a ring homomorphism: combine conversions eagerly so that the solvers see
	// (i2b (a - b)) instead of having to instantiate the homomorphism axiom
	if op == "bvadd" || op == "bvsub" {
		pa, pb := i2bArg(a), i2bArg(b)
		if pa != "" && pb != "" {
			o := "+"
			if op == "bvsub" {
				o = "-"
			}
			w := sortWidth(a.Sort)
			return Term{fmt.Sprintf("(i2b_%d (%s %s %s))", w, o, pa, pb), a.Sort}
		}
	}
	switch op {
	case "bvadd":
		if isZeroBV(a) {
			return b
		}
		if isZeroBV(b) {
			return a
		}
	case "bvsub":
		if isZeroBV(b) {
			return a
		}
	}
	return app(a.Sort, op, a, b)
}

func BVCmp(op string, a, b Term) Term {
	if a.Sort != b.Sort {
		panic(fmt.Sprintf("BVCmp %s sort mismatch: %s:%s vs %s:%s", op, a.S, a.Sort, b.S, b.Sort))
	}
	return app(SBool, op, a, b)
}

func IntCmp(op string, a, b Term) Term { return app(SBool, op, a, b) }
func IntAdd(a, b Term) Term            { return app(SInt, "+", a, b) }

// Resize converts a BV term to width w (sign- or zero-extending, or truncating).
func Resize(a Term, w int, signed bool) Term {
	aw := sortWidth(a.Sort)
	if aw == 0 {
		panic("Resize of non-BV " + a.S + ":" + a.Sort)
	}
	switch {
	case aw == w:
		return a
	case aw > w:
		return Term{fmt.Sprintf("((_ extract %d 0) %s)", w-1, a.S), BVSort(w)}
	case signed:
		return Term{fmt.Sprintf("((_ sign_extend %d) %s)", w-aw, a.S), BVSort(w)}
	default:
		return Term{fmt.Sprintf("((_ zero_extend %d) %s)", w-aw, a.S), BVSort(w)}
	}
}

// Forall builds a quantified formula with optional patterns.
func Forall(vars []Term, body Term, pats ...Term) Term {
	var sb strings.Builder
	sb.WriteString("(forall (")
	for _, v := range vars {
		fmt.Fprintf(&sb, "(%s %s)", v.S, v.Sort)
	}
	sb.WriteString(") ")
	if len(pats) > 0 {
		sb.WriteString("(! ")
		sb.WriteString(body.S)
		for _, p := range pats {
			sb.WriteString(" :pattern (")
			sb.WriteString(p.S)
			sb.WriteString(")")
		}
		sb.WriteString(")")
	} else {
		sb.WriteString(body.S)
	}
	sb.WriteString(")")
	return Term{sb.String(), SBool}
}

func Exists(vars []Term, body Term) Term {
	var sb strings.Builder
	sb.WriteString("(exists (")
	for _, v := range vars {
		fmt.Fprintf(&sb, "(%s %s)", v.S, v.Sort)
	}
	sb.WriteString(") ")
	sb.WriteString(body.S)
	sb.WriteString(")")
	return Term{sb.String(), SBool}
}

// ---------------------------------------------------------------------------

// Item is one line of the SMT script.
type Item struct {
	Text string
}

// Ctx accumulates declarations, definitions and assumptions in order.
type Ctx struct {
	Items   []Item
	n       int
	declared map[string]bool
	infos    map[int]*itemInfo
	Filter   bool // drop quantified assumptions unrelated to the goal (off: experiments showed it removes needed links)
	// threshold above which compound terms are named
	NameLimit int
}

func NewCtx() *Ctx {
	return &Ctx{declared: map[string]bool{}, NameLimit: 200}
}

func quote(name string) string {
	simple := true
	for _, c := range name {
		if !(c >= 'a' && c <= 'z' || c >= 'A' && c <= 'Z' || c >= '0' && c <= '9' || c == '_' || c == '.' || c == '$' || c == '!') {
			simple = false
			break
		}
	}
	if simple && len(name) > 0 && !(name[0] >= '0' && name[0] <= '9') {
		return name
	}
	name = strings.ReplaceAll(name, "|", "!")
	name = strings.ReplaceAll(name, "\\", "!")
	return "|" + name + "|"
}

func (c *Ctx) add(s string) { c.Items = append(c.Items, Item{s}) }

// Fresh declares a fresh constant.
func (c *Ctx) Fresh(prefix, sort string) Term {
	c.n++
	name := quote(fmt.Sprintf("%s!%d", prefix, c.n))
	c.add(fmt.Sprintf("(declare-fun %s () %s)", name, sort))
	return Term{name, sort}
}

// Const declares (once) a named constant.
func (c *Ctx) Const(name, sort string) Term {
	q := quote(name)
	if !c.declared[q] {
		c.declared[q] = true
		c.add(fmt.Sprintf("(declare-fun %s () %s)", q, sort))
	}
	return Term{q, sort}
}

// Func declares (once) an uninterpreted function.
func (c *Ctx) Func(name string, args []string, ret string) string {
	q := quote(name)
	if !c.declared[q] {
		c.declared[q] = true
		c.add(fmt.Sprintf("(declare-fun %s (%s) %s)", q, strings.Join(args, " "), ret))
	}
	return q
}

func (c *Ctx) Raw(key, text string) {
	if key != "" {
		if c.declared[key] {
			return
		}
		c.declared[key] = true
	}
	c.add(text)
}

// Def names a term (if it is big enough to be worth naming).
func (c *Ctx) Def(prefix string, t Term) Term {
	if len(t.S) < c.NameLimit {
		return t
	}
	return c.DefAlways(prefix, t)
}

func (c *Ctx) DefAlways(prefix string, t Term) Term {
	c.n++
	name := quote(fmt.Sprintf("%s!%d", prefix, c.n))
	c.add(fmt.Sprintf("(define-fun %s () %s %s)", name, t.Sort, t.S))
	return Term{name, t.Sort}
}

// Assume adds an assertion.
func (c *Ctx) Assume(t Term) {
	if t.S == "true" {
		return
	}
	// conjunctions are asserted conjunct by conjunct (so that the relevance filter can drop the
	// quantified ones separately); (=> g (and ..)) likewise
	if strings.Contains(t.S, "(forall") && (strings.HasPrefix(t.S, "(and ") || strings.HasPrefix(t.S, "(=> ")) {
		tr := parseSx(t.S)
		if tr != nil && len(tr.kids) >= 3 && tr.kids[0].isAtom("and") {
			for _, k := range tr.kids[1:] {
				c.Assume(Term{k.String(), SBool})
			}
			return
		}
		if tr != nil && len(tr.kids) == 3 && tr.kids[0].isAtom("=>") && len(tr.kids[2].kids) >= 3 && tr.kids[2].kids[0].isAtom("and") {
			g := tr.kids[1].String()
			for _, k := range tr.kids[2].kids[1:] {
				c.Assume(Term{"(=> " + g + " " + k.String() + ")", SBool})
			}
			return
		}
	}
	c.add(fmt.Sprintf("(assert %s)", t.S))
}

func (c *Ctx) Mark() int { return len(c.Items) }

// Script renders the items up to mark followed by the negated goal.
func (c *Ctx) Script(mark int, goal Term, comment string) string {
	var sb strings.Builder
	sb.WriteString("; " + strings.ReplaceAll(comment, "\n", " ") + "\n")
	sb.WriteString("(set-option :produce-models true)\n(set-logic ALL)\n")
	var body strings.Builder
	keep := c.relevant(mark, goal.S)
	for i, it := range c.Items[:mark] {
		if !keep[i] {
			continue
		}
		body.WriteString(it.Text)
		body.WriteByte('\n')
	}
	fmt.Fprintf(&body, "(assert (not %s))\n(check-sat)\n", goal.S)
	bs := body.String()
	sb.WriteString(bridgePrelude(bs))
	sb.WriteString(bs)
	return sb.String()
}

// ----- mathematical integers (Go's 64-bit "wide" integer types are modelled as Int
// with explicit wrap-around, see wrapInt) --------------------------------------------

func isIntLit(t Term) (int64, bool) {
	var v int64
	if _, err := fmt.Sscanf(t.S, "(- %d)", &v); err == nil && strings.HasPrefix(t.S, "(- ") && strings.Count(t.S, " ") == 1 {
		return -v, true
	}
	for i, c := range t.S {
		if c < '0' || c > '9' {
			return 0, false
		}
		_ = i
	}
	if t.S == "" {
		return 0, false
	}
	if _, err := fmt.Sscanf(t.S, "%d", &v); err == nil {
		return v, true
	}
	return 0, false
}

func IntBig(v *big.Int) Term {
	if v.Sign() < 0 {
		return Term{"(- " + new(big.Int).Neg(v).String() + ")", SInt}
	}
	return Term{v.String(), SInt}
}

func IAdd(a, b Term) Term {
	if a.S == "0" {
		return b
	}
	if b.S == "0" {
		return a
	}
	if x, ok := isIntLit(a); ok {
		if y, ok := isIntLit(b); ok {
			return IntT(x + y)
		}
	}
	return app(SInt, "+", a, b)
}

func ISub(a, b Term) Term {
	if b.S == "0" {
		return a
	}
	if a.S == b.S {
		return IntT(0)
	}
	if x, ok := isIntLit(a); ok {
		if y, ok := isIntLit(b); ok {
			return IntT(x - y)
		}
	}
	return app(SInt, "-", a, b)
}

func IMul(a, b Term) Term { return app(SInt, "*", a, b) }
func ILe(a, b Term) Term  { return icmp("<=", a, b) }
func ILt(a, b Term) Term  { return icmp("<", a, b) }
func IGe(a, b Term) Term  { return icmp(">=", a, b) }
func IGt(a, b Term) Term  { return icmp(">", a, b) }

func icmp(op string, a, b Term) Term {
	if x, ok := isIntLit(a); ok {
		if y, ok := isIntLit(b); ok {
			var r bool
			switch op {
			case "<=":
				r = x <= y
			case "<":
				r = x < y
			case ">=":
				r = x >= y
			case ">":
				r = x > y
			}
			if r {
				return True
			}
			return False
		}
	}
	return app(SBool, op, a, b)
}

// InRange: lo <= x < hi
func InRange(x, lo, hi Term) Term { return And(ILe(lo, x), ILt(x, hi)) }

// Bv2Nat: the unsigned value of a bit-vector as a mathematical integer. The conversion
// functions b2i_W / i2b_W are declared uninterpreted with the axioms emitted by
// bridgePrelude (range, mutual inverse, monotonicity, ground values of every literal that
// occurs): every axiom is a true statement about bv2nat / int2bv, so the encoding is sound;
// the solvers' built-in bv2nat proved far too slow (5 s for a one-line lemma).
func Bv2Nat(a Term) Term {
	w := sortWidth(a.Sort)
	var lit int64
	if _, err := fmt.Sscanf(a.S, "(_ bv%d ", &lit); err == nil && strings.HasPrefix(a.S, "(_ bv") {
		return IntT(lit)
	}
	return app(SInt, fmt.Sprintf("b2i_%d", w), a)
}

// Int2BV: the w-bit vector of x mod 2^w.
func Int2BV(x Term, w int) Term {
	if v, ok := isIntLit(x); ok {
		return BV(v, w)
	}
	return app(BVSort(w), fmt.Sprintf("i2b_%d", w), x)
}

var bvLitRe = regexp.MustCompile(`\(_ bv([0-9]+) ([0-9]+)\)`)

// bridgePrelude declares the conversion functions used in body and their axioms.
func bridgePrelude(body string) string {
	var sb strings.Builder
	widths := []int{8, 16, 32, 64}
	used := map[int]bool{}
	any := false
	for _, w := range widths {
		if strings.Contains(body, fmt.Sprintf("(b2i_%d ", w)) || strings.Contains(body, fmt.Sprintf("(i2b_%d ", w)) {
			used[w] = true
			any = true
		}
	}
	if !any {
		return ""
	}
	// widening conversions between bridged widths: declare both ends
	hasZext := strings.Contains(body, "(_ zero_extend ")
	if hasZext {
		for _, w := range widths {
			for _, w2 := range widths {
				if w < w2 && (used[w] || used[w2]) && strings.Contains(body, fmt.Sprintf("((_ zero_extend %d) ", w2-w)) {
					used[w], used[w2] = true, true
				}
			}
		}
	}
	for _, w := range widths {
		if !used[w] {
			continue
		}
		b2i := fmt.Sprintf("b2i_%d", w)
		i2b := fmt.Sprintf("i2b_%d", w)
		srt := BVSort(w)
		lim := new(big.Int).Lsh(big.NewInt(1), uint(w)).String()
		fmt.Fprintf(&sb, "(declare-fun %s (%s) Int)\n(declare-fun %s (Int) %s)\n", b2i, srt, i2b, srt)
		fmt.Fprintf(&sb, "(assert (forall ((x %s)) (! (and (<= 0 (%s x)) (< (%s x) %s) (= (%s (%s x)) x)) :pattern ((%s x)))))\n", srt, b2i, b2i, lim, i2b, b2i, b2i)
		fmt.Fprintf(&sb, "(assert (forall ((i Int)) (! (= (%s (%s i)) (mod i %s)) :pattern ((%s (%s i))))))\n", b2i, i2b, lim, b2i, i2b)
		fmt.Fprintf(&sb, "(assert (forall ((x %s) (y %s)) (! (= (bvult x y) (< (%s x) (%s y))) :pattern ((%s x) (%s y)))))\n", srt, srt, b2i, b2i, b2i, b2i)
		for _, op := range [][2]string{{"bvsub", "-"}, {"bvadd", "+"}} {
			fmt.Fprintf(&sb, "(assert (forall ((a Int) (b Int)) (! (= (%s (%s a) (%s b)) (%s (%s a b))) :pattern ((%s (%s a) (%s b))))))\n",
				op[0], i2b, i2b, i2b, op[1], op[0], i2b, i2b)
		}
		seen := map[string]bool{}
		for _, m := range bvLitRe.FindAllStringSubmatch(body, -1) {
			if m[2] != fmt.Sprint(w) || seen[m[1]] {
				continue
			}
			seen[m[1]] = true
			fmt.Fprintf(&sb, "(assert (= (%s (_ bv%s %d)) %s))\n", b2i, m[1], w, m[1])
			fmt.Fprintf(&sb, "(assert (= (%s %s) (_ bv%s %d)))\n", i2b, m[1], m[1], w)
		}
		for _, v := range []string{"0", "1"} {
			if !seen[v] {
				fmt.Fprintf(&sb, "(assert (= (%s (_ bv%s %d)) %s))\n", b2i, v, w, v)
			}
		}
	}
	// zero extension keeps the unsigned value
	if hasZext {
		for _, w := range widths {
			for _, w2 := range widths {
				if w < w2 && used[w] && used[w2] && strings.Contains(body, fmt.Sprintf("((_ zero_extend %d) ", w2-w)) {
					fmt.Fprintf(&sb, "(assert (forall ((x %s)) (! (= (b2i_%d ((_ zero_extend %d) x)) (b2i_%d x)) :pattern (((_ zero_extend %d) x)))))\n",
						BVSort(w), w2, w2-w, w, w2-w)
				}
			}
		}
	}
	return sb.String()
}

var two63 = new(big.Int).Lsh(big.NewInt(1), 63)
var two64 = new(big.Int).Lsh(big.NewInt(1), 64)

// wrapInt reduces a mathematical result z (known to be within one modulus of the range,
// as after one addition or subtraction of in-range operands) into the 64-bit range.
func wrapInt(z Term, signed bool) Term {
	if _, ok := isIntLit(z); ok {
		return z
	}
	m := IntBig(two64)
	if signed {
		hi := IntBig(two63)
		lo := IntBig(new(big.Int).Neg(two63))
		return Ite(IGe(z, hi), app(SInt, "-", z, m), Ite(ILt(z, lo), app(SInt, "+", z, m), z))
	}
	return Ite(IGe(z, m), app(SInt, "-", z, m), Ite(ILt(z, IntT(0)), app(SInt, "+", z, m), z))
}

// wrapIntMod reduces an arbitrary mathematical integer into the 64-bit range.
func wrapIntMod(z Term, signed bool) Term {
	m := IntBig(two64)
	if signed {
		h := IntBig(two63)
		return app(SInt, "-", app(SInt, "mod", app(SInt, "+", z, h), m), h)
	}
	return app(SInt, "mod", z, m)
}

var symRe = regexp.MustCompile(`\|[^|]+\||[A-Za-z_][A-Za-z0-9_.!$]*`)
var heapFamRe = regexp.MustCompile(`^\|?(?:H0|H|Hl|Hh|He[0-9]+|Hm[0-9]+):([^|!]+)`)

type itemInfo struct {
	defName string   // for define-fun
	syms    []string // symbols mentioned
	quant   bool
	isAssert bool
}

func (c *Ctx) itemInfo(i int) *itemInfo {
	if c.infos == nil {
		c.infos = map[int]*itemInfo{}
	}
	if ii, ok := c.infos[i]; ok {
		return ii
	}
	t := c.Items[i].Text
	ii := &itemInfo{quant: strings.Contains(t, "(forall") || strings.Contains(t, "(exists"), isAssert: strings.HasPrefix(t, "(assert")}
	toks := symRe.FindAllString(t, -1)
	if strings.HasPrefix(t, "(define-fun ") {
		rest := t[len("(define-fun "):]
		if m := symRe.FindString(rest); m != "" {
			ii.defName = m
		}
	}
	seen := map[string]bool{}
	for _, k := range toks {
		if !seen[k] {
			seen[k] = true
			ii.syms = append(ii.syms, k)
		}
	}
	c.infos[i] = ii
	return ii
}

// relevant decides which items go into the script of a goal. Dropping assumptions is always
// sound. Only quantified assertions are candidates for dropping: one is kept iff it talks
// about a heap family that the goal (transitively through definitions and the kept
// quantified assertions) talks about.
func (c *Ctx) relevant(mark int, goal string) []bool {
	if !c.Filter {
		keep := make([]bool, mark)
		for i := range keep {
			keep[i] = true
		}
		return keep
	}
	keep := make([]bool, mark)
	defIdx := map[string]int{}
	for i := 0; i < mark; i++ {
		ii := c.itemInfo(i)
		if ii.defName != "" {
			defIdx[ii.defName] = i
		}
		keep[i] = true
	}
	// families reachable from a symbol list through definitions
	famCache := map[int]map[string]bool{}
	var famOfDef func(i int, depth int) map[string]bool
	// array-sorted constants (fresh contents of copies, havocs, canonical keys ...) link axioms to
	// goals just like heap families do
	arrSym := map[string]bool{}
	for i := 0; i < mark; i++ {
		t := c.Items[i].Text
		if strings.HasPrefix(t, "(declare-fun ") && strings.Contains(t, "() (Array ") {
			if m := symRe.FindString(t[len("(declare-fun "):]); m != "" {
				arrSym[m] = true
			}
		}
	}
	famOfSyms := func(syms []string, depth int) map[string]bool {
		out := map[string]bool{}
		for _, s := range syms {
			if m := heapFamRe.FindStringSubmatch(s); m != nil {
				out[m[1]] = true
			} else if arrSym[s] {
				out[s] = true
			}
			if di, ok := defIdx[s]; ok && depth < 50 {
				for f := range famOfDef(di, depth+1) {
					out[f] = true
				}
			}
		}
		return out
	}
	famOfDef = func(i int, depth int) map[string]bool {
		if f, ok := famCache[i]; ok {
			return f
		}
		famCache[i] = map[string]bool{}
		var syms []string
		for _, s := range c.itemInfo(i).syms {
			if s != c.itemInfo(i).defName {
				syms = append(syms, s)
			}
		}
		f := famOfSyms(syms, depth)
		famCache[i] = f
		return f
	}
	fams := famOfSyms(symRe.FindAllString(goal, -1), 0)
	type q struct {
		idx  int
		fams map[string]bool
	}
	var qs []q
	for i := 0; i < mark; i++ {
		ii := c.itemInfo(i)
		if ii.isAssert && ii.quant {
			f := famOfSyms(ii.syms, 0)
			if len(f) == 0 {
				continue // no heap involved (e.g. bridge axioms): keep
			}
			qs = append(qs, q{i, f})
			keep[i] = false
		}
	}
	for changed := true; changed; {
		changed = false
		for _, x := range qs {
			if keep[x.idx] {
				continue
			}
			hit := false
			for f := range x.fams {
				if fams[f] {
					hit = true
					break
				}
			}
			if hit {
				keep[x.idx] = true
				changed = true
				for f := range x.fams {
					fams[f] = true
				}
			}
		}
	}
	return keep
}
