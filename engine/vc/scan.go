package vc

import (
	"go/types"

	"golang.org/x/tools/go/ssa"
)

// writeSet is a static over-approximation of the heap names a piece of code may write.
type writeSet struct {
	heaps map[string]string // name -> sort
	all   bool              // may write anything
}

func (w *writeSet) add(name, sort string) { w.heaps[name] = sort }

func (fr *Frame) addFieldHeaps(w *writeSet, sname string, stt *types.Struct, i int) {
	f := stt.Field(i)
	switch u := f.Type().Underlying().(type) {
	case *types.Struct:
		for k := 0; k < u.NumFields(); k++ {
			fr.addFieldHeaps(w, typeName(f.Type()), u, k)
		}
	case *types.Array:
		fr.addElemHeaps(w, u.Elem())
	default:
		for _, c := range fr.en.layout(f.Type()) {
			w.add(fieldHeapName(sname, f.Name(), c.Path), ArrSort(SInt, c.Sort))
		}
	}
}

func (fr *Frame) addElemHeaps(w *writeSet, et types.Type) {
	for _, c := range fr.en.layout(et) {
		w.add(elemHeap(et, c.Path), ArrSort(SInt, ArrSort(SInt, c.Sort)))
	}
}

func (fr *Frame) addTypeHeaps(w *writeSet, t types.Type) {
	switch u := t.Underlying().(type) {
	case *types.Struct:
		for i := 0; i < u.NumFields(); i++ {
			fr.addFieldHeaps(w, typeName(t), u, i)
		}
	case *types.Array:
		fr.addElemHeaps(w, u.Elem())
	default:
		for _, c := range fr.en.layout(t) {
			w.add(boxHeap(t, c.Path), ArrSort(SInt, c.Sort))
		}
	}
}

func (fr *Frame) addAddrHeaps(w *writeSet, addr ssa.Value) {
	switch a := addr.(type) {
	case *ssa.Alloc:
		et := a.Type().(*types.Pointer).Elem()
		switch et.Underlying().(type) {
		case *types.Struct, *types.Array:
			fr.addTypeHeaps(w, et)
		}
		// plain local cells are not heaps
	case *ssa.FieldAddr:
		pt := a.X.Type().Underlying().(*types.Pointer)
		stt := pt.Elem().Underlying().(*types.Struct)
		fr.addFieldHeaps(w, typeName(pt.Elem()), stt, a.Field)
		if ia, ok := a.X.(*ssa.IndexAddr); ok { // struct element of a slice
			fr.addAddrHeaps(w, ia)
		}
	case *ssa.IndexAddr:
		switch u := a.X.Type().Underlying().(type) {
		case *types.Slice:
			fr.addElemHeaps(w, u.Elem())
		case *types.Pointer:
			if at, ok := u.Elem().Underlying().(*types.Array); ok {
				fr.addElemHeaps(w, at.Elem())
			}
		}
	case *ssa.Global:
		t := a.Type().(*types.Pointer).Elem()
		for _, c := range fr.en.layout(t) {
			w.add("G:"+a.Pkg.Pkg.Path()+"."+a.Name()+c.Path, c.Sort)
		}
	default:
		if pt, ok := addr.Type().Underlying().(*types.Pointer); ok {
			fr.addTypeHeaps(w, pt.Elem())
		}
	}
}

func (fr *Frame) addMapHeaps(w *writeSet, t types.Type) {
	mt, ok := t.Underlying().(*types.Map)
	if !ok {
		return
	}
	ks := fr.mapKeySort(mt)
	w.add(mapHeapHas(t), ArrSort(SInt, ArrSort(ks, SBool)))
	for _, c := range fr.en.layout(mt.Elem()) {
		w.add(mapHeapVal(t, c.Path), ArrSort(SInt, ArrSort(ks, c.Sort)))
	}
}

// scanBlocks collects the write set of a set of basic blocks.
func (fr *Frame) scanBlocks(w *writeSet, blocks []*ssa.BasicBlock, depth int, seen map[*ssa.Function]bool) {
	for _, b := range blocks {
		for _, in := range b.Instrs {
			if w.all {
				return
			}
			switch x := in.(type) {
			case *ssa.Store:
				fr.addAddrHeaps(w, x.Addr)
			case *ssa.Alloc:
				fr.addAddrHeaps(w, x) // zero-initialisation of struct/array locals
			case *ssa.MapUpdate:
				fr.addMapHeaps(w, x.Map.Type())
			case *ssa.MakeMap:
				fr.addMapHeaps(w, x.Type())
			case *ssa.MakeSlice:
				fr.addElemHeaps(w, x.Type().Underlying().(*types.Slice).Elem())
			case *ssa.MakeInterface:
				switch x.X.Type().Underlying().(type) {
				case *types.Pointer, *types.Map, *types.Chan:
				default:
					fr.addTypeHeaps(w, x.X.Type())
				}
			case *ssa.Convert:
				if isString(x.X.Type()) || isString(x.Type()) {
					fr.addElemHeaps(w, types.Typ[types.Uint8])
				}
			case *ssa.BinOp:
				if isString(x.X.Type()) {
					fr.addElemHeaps(w, types.Typ[types.Uint8])
				}
			case *ssa.Go:
				// not executed
			case ssa.CallInstruction:
				fr.scanCall(w, x.Common(), depth, seen)
			}
		}
	}
}

func (fr *Frame) scanCall(w *writeSet, cc *ssa.CallCommon, depth int, seen map[*ssa.Function]bool) {
	if bi, ok := cc.Value.(*ssa.Builtin); ok {
		switch bi.Name() {
		case "append", "copy", "clear":
			if len(cc.Args) > 0 {
				if sl, ok := cc.Args[0].Type().Underlying().(*types.Slice); ok {
					fr.addElemHeaps(w, sl.Elem())
				}
				fr.addMapHeaps(w, cc.Args[0].Type())
			}
		case "delete":
			fr.addMapHeaps(w, cc.Args[0].Type())
		}
		return
	}
	if cc.IsInvoke() {
		recvT := cc.Value.Type()
		key := ""
		if n, ok := recvT.(*types.Named); ok && n.Obj().Pkg() != nil {
			key = n.Obj().Pkg().Path() + "." + n.Obj().Name() + "." + cc.Method.Name()
		}
		if fc := fr.en.CS.Funcs[key]; fc != nil {
			fr.scanContract(w, fc, cc.Signature(), true)
			return
		}
		if impls := fr.en.closedImpls(recvT, cc.Method); len(impls) > 0 {
			for _, im := range impls {
				fr.scanFunc(w, im.fn, depth, seen)
			}
			return
		}
		w.all = true
		return
	}
	if fn := cc.StaticCallee(); fn != nil {
		fr.scanFunc(w, fn, depth, seen)
		return
	}
	if mc, ok := cc.Value.(*ssa.MakeClosure); ok {
		fr.scanFunc(w, mc.Fn.(*ssa.Function), depth, seen)
		return
	}
	w.all = true
}

func (fr *Frame) scanFunc(w *writeSet, fn *ssa.Function, depth int, seen map[*ssa.Function]bool) {
	fc := fr.en.CS.Funcs[FuncKey(fn)]
	if fc != nil && !fc.Inline {
		fr.scanContract(w, fc, fn.Signature, false)
		return
	}
	if fr.en.isEffectFree(fn) {
		return
	}
	if len(fn.Blocks) == 0 || depth > 12 || seen[fn] {
		if seen[fn] {
			return
		}
		w.all = true
		return
	}
	if !fr.canInlineStatic(fn, fc) {
		w.all = true
		return
	}
	seen[fn] = true
	fr.scanBlocks(w, fn.Blocks, depth+1, seen)
}

// canInlineStatic mirrors canInline without the dynamic stack check.
func (fr *Frame) canInlineStatic(fn *ssa.Function, fc *FuncContract) bool {
	save := fr.depth
	fr.depth = 0
	ok := fr.canInline(fn, fc)
	fr.depth = save
	return ok
}

// scanContract adds the heaps named by a contract's modifies clause (evaluated on fresh
// symbolic arguments, only the heap names are used).
func (fr *Frame) scanContract(w *writeSet, fc *FuncContract, sig *types.Signature, invoke bool) {
	// ghost attribute marks made by the callee's ensures clauses are writes to the attribute heap
	for _, e := range fc.Ensures {
		for _, p := range SplitConj(e.E) {
			if b, ok := p.(*EBin); ok && b.Op == "==>" {
				p = b.Y
			}
			if _, ok := attrCall(p); ok {
				call := p
				if u, ok := p.(*EUn); ok {
					call = u.X
				}
				w.heaps["R:"+call.(*ECall).Args[0].(*EIdent).Name] = ArrSort(SInt, SBool)
			}
		}
	}
	if !fc.HasMod {
		w.all = true
		return
	}
	if len(fc.Modifies) == 0 {
		return
	}
	for _, m := range fc.Modifies {
		if m.All {
			w.all = true
			return
		}
	}
	// build a scratch scope
	var ptypes []types.Type
	if sig.Recv() != nil {
		ptypes = append(ptypes, sig.Recv().Type())
	}
	for i := 0; i < sig.Params().Len(); i++ {
		ptypes = append(ptypes, sig.Params().At(i).Type())
	}
	if len(ptypes) != len(fc.Params) {
		w.all = true
		return
	}
	st := &State{pc: True, cells: map[int]Val{}, heaps: map[string]Term{}, alloc: fr.top.alloc0, ghost: map[string]Val{}}
	sc := &Scope{fr: fr, st: st, vars: map[string]Val{}, entry: map[string]Val{}, pkg: fr.en.typesPkg(fc.PkgPath)}
	for i, p := range fc.Params {
		sc.vars[p] = fr.fresh("scan_"+p, ptypes[i])
	}
	defer func() {
		if r := recover(); r != nil {
			if _, ok := r.(contractErr); ok {
				w.all = true
				return
			}
			panic(r)
		}
	}()
	for _, t := range fr.resolveTargets(sc, fc.Modifies) {
		switch {
		case t.all, t.pkgHeaps != "", t.heapName != "", t.mapOf != "":
			w.all = true
		case t.isElems:
			for hn := range t.eHeaps {
				if srt := fr.top.heapSorts[hn]; srt != "" {
					w.add(hn, srt)
				}
			}
		case t.isField:
			for k, hn := range t.heaps {
				w.add(hn, ArrSort(SInt, t.sorts[k]))
			}
		case t.isRange:
			fr.addElemHeaps(w, t.elemT)
		}
	}
}

// loopWriteSet computes the write set of a loop.
func (fr *Frame) loopWriteSet(li *loopInfo) *writeSet {
	w := &writeSet{heaps: map[string]string{}}
	var bs []*ssa.BasicBlock
	for b := range li.blocks {
		bs = append(bs, b)
	}
	fr.scanBlocks(w, bs, 0, map[*ssa.Function]bool{fr.fn: true})
	return w
}
