package vc

import (
	"fmt"
	"go/token"
	"go/types"
	"os"
	"path/filepath"
	"sort"
	"strings"

	"golang.org/x/tools/go/packages"
	"golang.org/x/tools/go/ssa"
	"golang.org/x/tools/go/ssa/ssautil"
)

type Engine struct {
	Fset       *token.FileSet
	Prog       *ssa.Program
	Pkgs       []*packages.Package
	ModulePath string
	CS         *Contracts
	RepoDir    string

	byPath       map[string]*packages.Package
	layouts      map[types.Type][]comp
	typeTags     map[string]int
	tagTypes     map[int]types.Type
	fieldIDs     map[string]int
	sentinels    map[string]int
	immut        map[*ssa.Global]bool
	neverWritten map[*ssa.Global]bool
	modWrites    map[*ssa.Global]bool
	immutDone    map[*ssa.Package]bool
	funcsByKey   map[string]*ssa.Function
	implCache    map[string][]implMethod
}

func Load(repoDir string, patterns []string, tags string) (*Engine, error) {
	cfg := &packages.Config{
		Mode: packages.NeedName | packages.NeedFiles | packages.NeedCompiledGoFiles | packages.NeedImports |
			packages.NeedDeps | packages.NeedTypes | packages.NeedSyntax | packages.NeedTypesInfo | packages.NeedTypesSizes | packages.NeedModule,
		Dir:        repoDir,
		Env:        append(os.Environ(), "GOFLAGS=-mod=mod", "GOPROXY=off", "GOSUMDB=off", "GOTOOLCHAIN=local"),
		BuildFlags: []string{"-tags=" + tags},
	}
	pkgs, err := packages.Load(cfg, patterns...)
	if err != nil {
		return nil, err
	}
	var errs []string
	packages.Visit(pkgs, nil, func(p *packages.Package) {
		for _, e := range p.Errors {
			errs = append(errs, e.Error())
		}
	})
	if len(errs) > 0 {
		return nil, fmt.Errorf("package load errors: %s", strings.Join(errs, "; "))
	}
	prog, _ := ssautil.AllPackages(pkgs, ssa.NaiveForm|ssa.GlobalDebug|ssa.InstantiateGenerics)
	prog.Build()
	en := &Engine{Fset: prog.Fset, Prog: prog, Pkgs: pkgs, RepoDir: repoDir, CS: NewContracts(),
		byPath: map[string]*packages.Package{}, layouts: map[types.Type][]comp{}, typeTags: map[string]int{}, tagTypes: map[int]types.Type{},
		fieldIDs: map[string]int{}, sentinels: map[string]int{}, immut: map[*ssa.Global]bool{}, neverWritten: map[*ssa.Global]bool{}, immutDone: map[*ssa.Package]bool{},
		funcsByKey: map[string]*ssa.Function{}, implCache: map[string][]implMethod{}}
	packages.Visit(pkgs, nil, func(p *packages.Package) { en.byPath[p.PkgPath] = p })
	for _, p := range pkgs {
		if p.Module != nil {
			en.ModulePath = p.Module.Path
		}
	}
	return en, nil
}

// RepoPkgDirs maps module package paths to directories (for contract discovery).
func (en *Engine) RepoPkgDirs() map[string]string {
	out := map[string]string{}
	for path, p := range en.byPath {
		if p.Module != nil && p.Module.Path == en.ModulePath && len(p.GoFiles) > 0 {
			f := p.GoFiles[0]
			out[path] = f[:strings.LastIndex(f, "/")]
		}
	}
	return out
}

func (en *Engine) ssaPkg(p *types.Package) *ssa.Package {
	if p == nil {
		return nil
	}
	return en.Prog.Package(p)
}

func (en *Engine) typesPkg(path string) *types.Package {
	if p, ok := en.byPath[path]; ok {
		return p.Types
	}
	return nil
}

// pkgByName resolves an import name as seen from package from.
func (en *Engine) pkgByName(from *types.Package, name string) *types.Package {
	if from != nil {
		for _, imp := range from.Imports() {
			if imp.Name() == name {
				return imp
			}
		}
		// aliased imports: look at the syntax
		if p, ok := en.byPath[from.Path()]; ok {
			for _, f := range p.Syntax {
				for _, is := range f.Imports {
					if is.Name != nil && is.Name.Name == name {
						path := strings.Trim(is.Path.Value, "\"")
						if q, ok := en.byPath[path]; ok {
							return q.Types
						}
					}
				}
			}
		}
	}
	// fall back: any loaded package with that name inside the module
	var cands []*packages.Package
	for _, p := range en.byPath {
		if p.Name == name {
			cands = append(cands, p)
		}
	}
	sort.Slice(cands, func(i, j int) bool {
		mi := strings.HasPrefix(cands[i].PkgPath, en.ModulePath)
		mj := strings.HasPrefix(cands[j].PkgPath, en.ModulePath)
		if mi != mj {
			return mi
		}
		return len(cands[i].PkgPath) < len(cands[j].PkgPath)
	})
	if len(cands) > 0 {
		return cands[0].Types
	}
	return nil
}

func (en *Engine) sentinelID(name string) int {
	if id, ok := en.sentinels[name]; ok {
		return id
	}
	id := len(en.sentinels) + 1
	en.sentinels[name] = id
	return id
}

// computeImmutable marks globals of pkg that are only stored to in init.
func (en *Engine) computeImmutable(pkg *ssa.Package) {
	if en.immutDone[pkg] {
		return
	}
	en.immutDone[pkg] = true
	written := map[*ssa.Global]bool{}
	initWritten := map[*ssa.Global]bool{}
	var visit func(fn *ssa.Function)
	visit = func(fn *ssa.Function) {
		isInit := fn.Name() == "init" || strings.HasPrefix(fn.Name(), "init#")
		for _, b := range fn.Blocks {
			for _, in := range b.Instrs {
				if s, ok := in.(*ssa.Store); ok {
					if g, ok := s.Addr.(*ssa.Global); ok {
						if isInit {
							initWritten[g] = true
						} else {
							written[g] = true
						}
					}
				}
				if isInit {
					// any other use of the global's address inside init may initialise it
					for _, op := range in.Operands(nil) {
						if g, ok := (*op).(*ssa.Global); ok {
							if _, isLoad := in.(*ssa.UnOp); !isLoad {
								initWritten[g] = true
							}
						}
					}
				}
				// address taken other than load/store
				if !isInit {
					for _, op := range in.Operands(nil) {
						if g, ok := (*op).(*ssa.Global); ok {
							switch x := in.(type) {
							case *ssa.UnOp:
								if x.Op == token.MUL {
									continue
								}
							case *ssa.Store:
								if x.Addr == g {
									continue
								}
							}
							written[g] = true
						}
					}
				}
			}
		}
		for _, a := range fn.AnonFuncs {
			visit(a)
		}
	}
	for _, m := range pkg.Members {
		if fn, ok := m.(*ssa.Function); ok {
			visit(fn)
		}
		if t, ok := m.(*ssa.Type); ok {
			for _, ty := range []types.Type{t.Type(), types.NewPointer(t.Type())} {
				ms := en.Prog.MethodSets.MethodSet(ty)
				for i := 0; i < ms.Len(); i++ {
					if f := en.Prog.MethodValue(ms.At(i)); f != nil && f.Pkg == pkg {
						visit(f)
					}
				}
			}
		}
	}
	for _, m := range pkg.Members {
		if g, ok := m.(*ssa.Global); ok && !written[g] {
			en.immut[g] = true
			if !initWritten[g] {
				en.neverWritten[g] = true
			}
		}
	}
}

// writtenAnywhere: some function of the module (outside the global's own package, which
// computeImmutable covers) stores to the global or takes its address.
func (en *Engine) writtenAnywhere(g *ssa.Global) bool {
	if en.modWrites == nil {
		en.modWrites = map[*ssa.Global]bool{}
		for fn := range ssautil.AllFunctions(en.Prog) {
			for _, b := range fn.Blocks {
				for _, in := range b.Instrs {
					for _, op := range in.Operands(nil) {
						gl, ok := (*op).(*ssa.Global)
						if !ok {
							continue
						}
						if u, isLoad := in.(*ssa.UnOp); isLoad && u.Op == token.MUL {
							continue
						}
						if fn.Pkg == gl.Pkg && (fn.Name() == "init" || strings.HasPrefix(fn.Name(), "init#")) {
							continue
						}
						en.modWrites[gl] = true
					}
				}
			}
		}
	}
	if en.modWrites[g] {
		return true
	}
	// packages of the module that are not loaded: textual scan for a qualified use of the
	// global outside its own package directory (any such use counts as a possible write)
	if !g.Object().Exported() {
		return false
	}
	own := ""
	if p, ok := en.byPath[g.Pkg.Pkg.Path()]; ok && len(p.GoFiles) > 0 {
		own = filepath.Dir(p.GoFiles[0])
	}
	needle := g.Pkg.Pkg.Name() + "." + g.Name()
	found := false
	filepath.Walk(en.RepoDir, func(path string, info os.FileInfo, err error) error {
		if err != nil || found {
			return nil
		}
		if info.IsDir() {
			if strings.HasPrefix(info.Name(), ".") && path != en.RepoDir {
				return filepath.SkipDir
			}
			return nil
		}
		if !strings.HasSuffix(path, ".go") || filepath.Dir(path) == own {
			return nil
		}
		b, err := os.ReadFile(path)
		if err == nil && strings.Contains(string(b), needle) {
			found = true
		}
		return nil
	})
	en.modWrites[g] = found
	return found
}

func (en *Engine) isErrorSentinel(g *ssa.Global) bool {
	t := g.Type().(*types.Pointer).Elem()
	if !types.Identical(t, types.Universe.Lookup("error").Type()) {
		return false
	}
	en.computeImmutable(g.Pkg)
	return en.immut[g]
}

func (en *Engine) immutableGlobal(heapName string) bool { return false }

var effectFreePkgs = []string{
	"github.com/rs/zerolog", "github.com/prometheus/", "github.com/IrineSistiana/mosproxy/internal/mlog",
}

func (en *Engine) isEffectFree(fn *ssa.Function) bool {
	p := ""
	if fn.Pkg != nil {
		p = fn.Pkg.Pkg.Path()
	} else if o := fn.Origin(); o != nil && o.Pkg != nil {
		p = o.Pkg.Pkg.Path()
	} else if fn.Signature.Recv() != nil {
		t := fn.Signature.Recv().Type()
		if pt, ok := t.(*types.Pointer); ok {
			t = pt.Elem()
		}
		if n, ok := t.(*types.Named); ok && n.Obj().Pkg() != nil {
			p = n.Obj().Pkg().Path()
		}
	}
	for _, e := range effectFreePkgs {
		if strings.HasPrefix(p, e) {
			return true
		}
	}
	return false
}

// FindFunc locates the SSA function for a contract key.
func (en *Engine) FindFunc(key string) *ssa.Function {
	if len(en.funcsByKey) == 0 {
		for fn := range ssautil.AllFunctions(en.Prog) {
			if fn.Synthetic != "" && !strings.Contains(fn.Synthetic, "instance") {
				continue
			}
			k := FuncKey(fn)
			if old, ok := en.funcsByKey[k]; ok {
				// a generic function is verified at an instantiation the program uses (its body over type
				// parameters has no layout); otherwise first by name
				og, ng := isGenericFn(old), isGenericFn(fn)
				if og == ng && old.String() <= fn.String() {
					continue
				}
				if !og && ng {
					continue
				}
			}
			en.funcsByKey[k] = fn
		}
	}
	return en.funcsByKey[key]
}

// isGenericFn: the function (or, for a function literal, its enclosing function) still has type parameters.
func isGenericFn(fn *ssa.Function) bool {
	for f := fn; f != nil; f = f.Parent() {
		if f.TypeParams().Len() > 0 && len(f.TypeArgs()) == 0 {
			return true
		}
	}
	return false
}

// FuncResult is the outcome of generating obligations for one function.
type FuncResult struct {
	Key     string
	Obls    []*Obligation
	Notes   []string
	Trusted []string
	Err     string // tool/contract error: function not decided
	ErrKind string // "unsupported", "contract"
	Props   []string
}

// verifyLemma: a lemma has no code; its parameters are arbitrary well-formed values.
func (en *Engine) verifyLemma(fc *FuncContract) (res *FuncResult) {
	res = &FuncResult{Key: fc.Key, Props: fc.Props}
	defer func() {
		if r := recover(); r != nil {
			switch e := r.(type) {
			case unsupportedErr:
				res.Err, res.ErrKind = "unsupported: "+e.msg, "unsupported"
			case contractErr:
				res.Err, res.ErrKind = "contract error: "+string(e), "contract"
			default:
				panic(r)
			}
		}
	}()
	pkg := en.typesPkg(fc.PkgPath)
	if pkg == nil {
		panic(contractErr("lemma in unknown package " + fc.PkgPath))
	}
	ctx := NewCtx()
	top := &Top{en: en, ctx: ctx, fnKey: shortKey(fc.Key), names: map[string]int{}, cellT: map[int]types.Type{},
		noteSet: map[string]bool{}, strObjs: map[string]Val{}, entryHeaps: map[string]Term{}, heapSorts: map[string]string{},
		trusted: map[string]bool{}, hookSeen: map[string]bool{}, props: fc.Props, closures: map[string]Val{}, epochHeaps: map[string]Term{}, epochMerge: map[int][]epochPart{}}
	ctx.Raw("sort:F64", "(declare-sort F64 0)")
	ctx.Raw("f64zero", "(declare-fun f64zero () F64)")
	top.alloc0 = ctx.Const("alloc0", SInt)
	ctx.Assume(IntCmp(">=", top.alloc0, IntT(1)))
	ctx.Assume(Eq(top.stamp(Nil), IntT(-1)))
	fr := &Frame{en: en, top: top, ctx: ctx, fc: fc, regs: map[ssa.Value]Val{}, cellOf: map[*ssa.Alloc]int{}, localNames: map[string][]*ssa.Alloc{}, pkg: pkg}
	st := &State{pc: True, cells: map[int]Val{}, heaps: map[string]Term{}, alloc: top.alloc0, ghost: map[string]Val{}}
	fr.entry = st
	sc := &Scope{fr: fr, st: st, old: st, vars: map[string]Val{}, entry: map[string]Val{}, pkg: pkg}
	for i, p := range fc.Params {
		pt := en.parseType(pkg, fc.PTypes[i])
		if pt == nil {
			panic(contractErr(fmt.Sprintf("lemma %s: cannot resolve type %q", fc.Name, fc.PTypes[i])))
		}
		v := fr.fresh("in_"+p, pt)
		fr.assumeWF(st, v)
		sc.vars[p] = v
		sc.entry[p] = v
	}
	for _, r := range fc.Requires {
		ctx.Assume(fr.evalBool(sc, r.E))
	}
	for i, e := range fc.Ensures {
		parts := SplitConj(e.E)
		for k, p := range parts {
			g := fr.evalBool(sc, p)
			name := clauseName(e, i)
			if len(parts) > 1 {
				name = fmt.Sprintf("%s.%d", name, k+1)
			}
			ce := *e
			ce.Text, ce.E = ExprString(p), p
			fr.oblige(st, "lemma", name, g, &ce, token.NoPos)
			if strings.HasSuffix(e.Label, "lemma") {
				fr.assume(st, g)
			}
		}
	}
	fr.oblige(st, "cover", "lemma", False, nil, token.NoPos)
	res.Obls = top.obls
	res.Notes = top.notes
	return
}

// VerifyFunc generates the obligations of one function under contract.
func (en *Engine) VerifyFunc(fc *FuncContract) (res *FuncResult) {
	if fc.IsLemma {
		return en.verifyLemma(fc)
	}
	res = &FuncResult{Key: fc.Key, Props: fc.Props}
	fn := en.FindFunc(fc.Key)
	if fn == nil {
		res.Err = "function not found in /repo: " + fc.Key
		res.ErrKind = "contract"
		return
	}
	defer func() {
		if r := recover(); r != nil {
			switch e := r.(type) {
			case unsupportedErr:
				res.Err, res.ErrKind = "unsupported: "+e.msg, "unsupported"
			case contractErr:
				res.Err, res.ErrKind = "contract error: "+string(e), "contract"
			default:
				panic(r)
			}
		}
	}()
	ctx := NewCtx()
	top := &Top{en: en, ctx: ctx, fnKey: shortKey(fc.Key), names: map[string]int{}, cellT: map[int]types.Type{},
		noteSet: map[string]bool{}, strObjs: map[string]Val{}, entryHeaps: map[string]Term{}, heapSorts: map[string]string{},
		trusted: map[string]bool{}, hookSeen: map[string]bool{}, props: fc.Props, closures: map[string]Val{}, epochHeaps: map[string]Term{}, epochMerge: map[int][]epochPart{}}
	ctx.Raw("sort:F64", "(declare-sort F64 0)")
	ctx.Raw("f64zero", "(declare-fun f64zero () F64)")
	top.alloc0 = ctx.Const("alloc0", SInt)
	ctx.Assume(IntCmp(">=", top.alloc0, IntT(1)))
	ctx.Assume(Eq(top.stamp(Nil), IntT(-1)))
	fr := &Frame{en: en, top: top, ctx: ctx, fn: fn, fc: fc, regs: map[ssa.Value]Val{}, cellOf: map[*ssa.Alloc]int{}, localNames: map[string][]*ssa.Alloc{}}
	if fn.Pkg != nil {
		fr.pkg = fn.Pkg.Pkg
	} else {
		fr.pkg = en.typesPkg(fc.PkgPath)
	}
	st := &State{pc: True, cells: map[int]Val{}, heaps: map[string]Term{}, alloc: top.alloc0, ghost: map[string]Val{}}
	if fc.IsClosure {
		for i := range fn.Params {
			fc.Params = append(fc.Params[:i:i], fn.Params[i].Name())
		}
		// results of a function literal are ret0, ret1, … in its contract
		if n := fn.Signature.Results().Len(); len(fc.Results) != n {
			fc.Results = nil
			for i := 0; i < n; i++ {
				fc.Results = append(fc.Results, fmt.Sprintf("ret%d", i))
			}
		}
	}
	if len(fn.Params) < len(fc.Params) {
		panic(contractErr(fmt.Sprintf("%s: contract header has %d parameters (incl. receiver), function has %d", fc.Key, len(fc.Params), len(fn.Params))))
	}
	if len(fn.Params) > len(fc.Params) {
		// trailing parameters the contract does not name are arbitrary inputs
		top.note(fmt.Sprintf("%s has %d parameters, its contract names %d: the extra trailing ones are unconstrained inputs", shortKey(fc.Key), len(fn.Params), len(fc.Params)))
		ps := append([]string{}, fc.Params...)
		for i := len(fc.Params); i < len(fn.Params); i++ {
			ps = append(ps, fn.Params[i].Name())
		}
		cp := *fc
		cp.Params = ps
		fc = &cp
		fr.fc = fc
	}
	sc := &Scope{fr: fr, st: st, vars: map[string]Val{}, entry: map[string]Val{}, pkg: fr.pkg}
	// captured variables of a function literal: cells with arbitrary well-formed content
	for _, fv := range fn.FreeVars {
		pt, ok := fv.Type().(*types.Pointer)
		if !ok {
			panic(unsupported("free variable that is not a captured cell"))
		}
		switch pt.Elem().Underlying().(type) {
		case *types.Struct, *types.Array:
			// a captured struct or array variable lives in the heap (as every local of such a type does):
			// the closure sees some existing object
			pv := fr.fresh("cap_"+fv.Name(), fv.Type())
			fr.assumeWF(st, pv)
			ctx.Assume(Not(Eq(pv.Term(), Nil)))
			fr.binds = append(fr.binds, pv)
			nv := pv
			nv.Nav = true // contract expressions see the variable's value (loaded through the reference)
			sc.vars[fv.Name()] = nv
			sc.entry[fv.Name()] = nv
			continue
		}
		top.ncell++
		id := top.ncell
		top.cellT[id] = pt.Elem()
		v := fr.fresh("cap_"+fv.Name(), pt.Elem())
		fr.assumeWF(st, v)
		st.cells[id] = v
		fr.binds = append(fr.binds, Val{K: KCellPtr, T: fv.Type(), Cell: id})
		sc.vars[fv.Name()] = v
		sc.entry[fv.Name()] = v
	}
	for i, p := range fn.Params {
		v := fr.fresh("in_"+fc.Params[i], p.Type())
		fr.assumeWF(st, v)
		fr.regs[p] = v
		fr.params = append(fr.params, v)
		sc.vars[fc.Params[i]] = v
		sc.entry[fc.Params[i]] = v
	}
	for _, r := range fc.Requires {
		ctx.Assume(fr.evalBool(sc, r.E))
	}
	// axioms about package-level state of dependencies (assumptions, listed in the evidence)
	for _, ax := range en.CS.Axioms {
		if p := en.typesPkg(ax.PkgPath); p != nil {
			asc := &Scope{fr: fr, st: st, vars: map[string]Val{}, entry: map[string]Val{}, pkg: p}
			ctx.Assume(fr.evalBool(asc, ax.E))
			top.trusted["axiom("+ax.PkgPath+"): "+ax.Text] = true
		}
	}
	for _, gv := range fc.Ghosts {
		v := fr.evalExpr(sc, gv.Init)
		gt := en.parseType(fr.pkg, gv.Type)
		if gt == nil && isNilConst(v) {
			panic(contractErr("ghost " + gv.Name + ": unknown type " + gv.Type))
		}
		switch {
		case isNilConst(v) && gt != nil:
			v = en.zero(gt)
		case v.K == KConst && gt != nil:
			v = fr.coerceTo(v, gt)
		case v.K == KConst:
			v = fr.coerceTo(v, types.Typ[types.Int])
		}
		if gt != nil && v.K == KNormal {
			v.T = gt
		}
		st.ghost[gv.Name] = v
	}
	fr.entry = st.clone()
	fr.entryScope = sc
	func() {
		defer func() { recover() }()
		top.replay = fr.buildReplayInfo(fc)
		if top.replay != nil {
			top.replay.EntryScript = strings.Replace(ctx.Script(ctx.Mark(), False, "entry context of "+fc.Key), "(assert (not false))\n", "", 1)
		}
	}()
	rst, vals := fr.execBody(st.clone())
	if rst != nil {
		// postconditions
		post := &Scope{fr: fr, st: rst, old: fr.entry, vars: map[string]Val{}, entry: sc.entry, pkg: fr.pkg}
		for k, v := range sc.vars {
			post.vars[k] = v
		}
		for i, v := range vals {
			if i < len(fc.Results) {
				post.vars[fc.Results[i]] = v
			}
		}
		for i, e := range fc.Ensures {
			parts := SplitConj(e.E)
			for k, p := range parts {
				g, _ := fr.tryEvalBool(post, p, "postcondition "+clauseName(e, i))
				name := clauseName(e, i)
				if len(parts) > 1 {
					name = fmt.Sprintf("%s.%d", name, k+1)
				}
				ce := *e
				ce.Text = ExprString(p)
				ce.E = p
				fr.oblige(rst, "ensures", name, g, &ce, fn.Pos())
				// clauses labelled ...lemma are available to the later clauses (each is proved on its own)
				if strings.HasSuffix(e.Label, "lemma") {
					fr.assume(rst, g)
				}
			}
		}
		fr.oblige(rst, "cover", "return", False, nil, fn.Pos())
		if fc.HasMod {
			pre := map[string]Term{}
			for hn, srt := range top.heapSorts {
				pre[hn] = fr.heap(fr.entry, hn, srt)
			}
			esc := *sc
			esc.st = fr.entry // targets denote locations of the entry state
			tg := fr.resolveTargets(&esc, fc.Modifies)
			fr.frameObligations(rst, pre, top.alloc0, tg, "frame", "", fn.Pos())
		}
	}
	// a hook that matches no call of the function checks nothing: that is an obligation of its own
	// ("the call the contract talks about is still there"), not a silent pass
	if rst != nil {
		hooks := map[string]bool{}
		for name := range fc.CallSites {
			if !fc.OptHooks[name] {
				hooks[name] = true
			}
		}
		for _, gu := range fc.GhostUps {
			if gu.OnCall != "" && !gu.Optional {
				hooks[gu.OnCall] = true
			}
		}
		// optional hooks ("f?") that match no call at all are reported to the developer (a misspelt name would
		// otherwise check nothing, silently)
		for name := range fc.CallSites {
			if fc.OptHooks[name] && !top.hookSeen[name] {
				top.note("optional hook " + name + " matches no call of this function: its clauses cannot be evaluated here")
			}
		}
		for _, gu := range fc.GhostUps {
			if gu.OnCall != "" && gu.Optional && !top.hookSeen[gu.OnCall] {
				top.note("optional hook " + gu.OnCall + " matches no call of this function: its ghost updates cannot be evaluated here")
			}
		}
		var hn []string
		for name := range hooks {
			hn = append(hn, name)
		}
		sort.Strings(hn)
		for _, name := range hn {
			g := True
			if !top.hookSeen[name] {
				g = False
			}
			fr.oblige(fr.entry, "hook", name, g, &Clause{Kind: "hook", Text: "the function calls " + name + " (its contract constrains those calls)"}, fn.Pos())
		}
	}
	res.Obls = top.obls
	res.Notes = top.notes
	for k := range top.trusted {
		res.Trusted = append(res.Trusted, k)
	}
	sort.Strings(res.Trusted)
	return
}

// loopScope builds the scope for loop invariants: parameters (current values via
// their cells), entry values, named locals.
func (fr *Frame) loopScope(st *State, loopAlloc Term, entry ...*State) *Scope {
	sc := &Scope{fr: fr, st: st, old: fr.entry, vars: map[string]Val{}, entry: map[string]Val{}, pkg: fr.pkg, cells: true, loopAlloc: loopAlloc}
	if len(entry) > 0 {
		sc.loopEntry = entry[0]
	}
	if fr.fc != nil {
		for i, p := range fr.fc.Params {
			if i < len(fr.params) {
				sc.entry[p] = fr.params[i]
			}
		}
		if fr.fc.IsClosure && fr.parent == nil {
			for i, fv := range fr.fn.FreeVars {
				if i < len(fr.binds) && fr.binds[i].K == KCellPtr {
					if v, ok := st.cells[fr.binds[i].Cell]; ok {
						sc.vars[fv.Name()] = v
					}
					if v, ok := fr.entry.cells[fr.binds[i].Cell]; ok {
						sc.entry[fv.Name()] = v
					}
				} else if i < len(fr.binds) && fr.binds[i].K == KNormal {
					// captured struct/array variable: its reference (the value is loaded where it is used)
					nv := fr.binds[i]
					nv.Nav = true
					sc.vars[fv.Name()] = nv
					sc.entry[fv.Name()] = nv
				}
			}
		}
	}
	return sc
}

type implMethod struct {
	recvT types.Type // *T
	fn    *ssa.Function
}

// closedImpls returns the implementations of method m of interface type it when the
// interface can only be implemented inside its own package (it has an unexported method).
func (en *Engine) closedImpls(it types.Type, m *types.Func) []implMethod {
	named, ok := it.(*types.Named)
	if !ok || named.Obj().Pkg() == nil {
		return nil
	}
	iface, ok := named.Underlying().(*types.Interface)
	if !ok {
		return nil
	}
	closed := false
	for i := 0; i < iface.NumMethods(); i++ {
		if !iface.Method(i).Exported() {
			closed = true
		}
	}
	if !closed {
		return nil
	}
	key := named.Obj().Pkg().Path() + "." + named.Obj().Name() + "." + m.Name()
	if r, ok := en.implCache[key]; ok {
		return r
	}
	var out []implMethod
	scope := named.Obj().Pkg().Scope()
	names := scope.Names()
	for _, n := range names {
		tn, ok := scope.Lookup(n).(*types.TypeName)
		if !ok || tn.IsAlias() {
			continue
		}
		if _, isIface := tn.Type().Underlying().(*types.Interface); isIface {
			continue
		}
		for _, t := range []types.Type{types.NewPointer(tn.Type()), tn.Type()} {
			if types.Implements(t, iface) {
				sel := en.Prog.MethodSets.MethodSet(t).Lookup(m.Pkg(), m.Name())
				if sel == nil {
					continue
				}
				if fn := en.Prog.MethodValue(sel); fn != nil {
					// unwrap synthetic wrappers to the declared method where possible
					out = append(out, implMethod{recvT: t, fn: en.declaredMethod(fn, t, m)})
				}
				break
			}
		}
	}
	en.implCache[key] = out
	return out
}

// declaredMethod finds the source-declared method for (t).m, avoiding promotion wrappers.
func (en *Engine) declaredMethod(fn *ssa.Function, t types.Type, m *types.Func) *ssa.Function {
	if fn.Synthetic == "" {
		return fn
	}
	return fn
}

// parseType resolves a Go type written in a contract (as seen from package pkg).
func (en *Engine) parseType(pkg *types.Package, s string) types.Type {
	s = strings.TrimSpace(s)
	switch {
	case strings.HasPrefix(s, "*"):
		if t := en.parseType(pkg, s[1:]); t != nil {
			return types.NewPointer(t)
		}
		return nil
	case strings.HasPrefix(s, "[]"):
		if t := en.parseType(pkg, s[2:]); t != nil {
			return types.NewSlice(t)
		}
		return nil
	case strings.HasPrefix(s, "chan<-"), strings.HasPrefix(s, "<-chan"), strings.HasPrefix(s, "chan "):
		dir, rest := types.SendRecv, s[len("chan "):]
		if strings.HasPrefix(s, "chan<-") {
			dir, rest = types.SendOnly, s[len("chan<-"):]
		} else if strings.HasPrefix(s, "<-chan") {
			dir, rest = types.RecvOnly, s[len("<-chan"):]
		}
		if t := en.parseType(pkg, rest); t != nil {
			return types.NewChan(dir, t)
		}
		return nil
	}
	if i := strings.Index(s, "."); i > 0 && !strings.ContainsAny(s, "[]( ") {
		if p := en.pkgByName(pkg, s[:i]); p != nil {
			if tn, ok := p.Scope().Lookup(s[i+1:]).(*types.TypeName); ok {
				return tn.Type()
			}
		}
		return nil
	}
	if tv, err := types.Eval(en.Fset, pkg, token.NoPos, s); err == nil && tv.Type != nil {
		return tv.Type
	}
	return nil
}

// inModule: is the package part of the repository under verification?
func (en *Engine) inModule(pkgPath string) bool {
	return en.ModulePath != "" && strings.HasPrefix(pkgPath, en.ModulePath)
}
