package vc

import (
	"fmt"
	"go/token"
	"go/types"
	"sort"
	"strings"

	"golang.org/x/tools/go/ssa"
)

// resolvedTarget is one evaluated modifies target.
type resolvedTarget struct {
	text string
	all  bool
	// field target: heaps (one per component) at ref
	isField bool
	ref     Term
	heaps   []string
	sorts   []string // element sorts
	// element range target: object obj, absolute indices [lo,hi)
	isRange bool
	obj     Term
	lo, hi  Term
	whole   bool // whole object
	elemT   types.Type
	// whole-heap targets: every heap of a package's types, or one named heap family
	pkgHeaps string
	heapName string
	heapPfx  bool // heapName is a prefix (all component heaps of a field)
	mapOf    string // maps(pkg.T): all map heaps whose type mentions pkg.T
	// elems(s): every field (and nested array) of the objects the elements of slice s point to
	isElems bool
	eArr    Term            // Array Int Int: the element references of s's object (pre-state)
	eLo     Term            // absolute index range of s inside its object
	eHi     Term
	eHeaps  map[string]bool // field and nested-array heaps of the element object types
}

// member: r is an element object of the elems target, or a sub-object (nested struct/array) of one.
func (t *resolvedTarget) member(fr *Frame, r Term, arrayObj bool) Term {
	k := Term{"k!el", SInt}
	e := Select(t.eArr, k)
	fr.top.dot(IntT(0), 0) // make sure dot / dot_base / dot_fld and their axioms are declared
	db := fr.top.ctx.Func("dot_base", []string{SInt}, SInt)
	// a sub-object (nested struct / array) was allocated together with the object that contains it
	fr.top.ctx.Raw("dot-base-stamp", fmt.Sprintf("(assert (forall ((x!d Int)) (! (=> (not (= (dot_fld x!d) 0)) (= (stamp x!d) (stamp (%s x!d)))) :pattern ((%s x!d)))))", db, db))
	sub := And(Not(Eq(fr.top.dotFld(r), IntT(0))), Eq(e, Term{"(" + db + " " + r.S + ")", SInt}))
	if arrayObj {
		// r is an array object (element memory): it can only be an array nested in an element object,
		// never the element object itself (elements are structs reached through pointers)
		return Exists([]Term{k}, And(InRange(k, t.eLo, t.eHi), Not(Eq(e, Nil)), sub))
	}
	return Exists([]Term{k}, And(InRange(k, t.eLo, t.eHi), Not(Eq(e, Nil)), Or(Eq(e, r), sub)))
}

// resolveTargets evaluates modifies targets in the scope's state.
func (fr *Frame) resolveTargets(sc *Scope, mts []ModTarget) []resolvedTarget {
	var out []resolvedTarget
	for _, mt := range mts {
		if mt.All {
			out = append(out, resolvedTarget{text: "*", all: true})
			continue
		}
		out = append(out, fr.resolveTarget(sc, mt)...)
	}
	return out
}

func (fr *Frame) resolveTarget(sc *Scope, mt ModTarget) []resolvedTarget {
	switch e := mt.E.(type) {
	case *ESel:
		// p.f  : field f of the struct p points to
		base := fr.evalExpr(sc, e.X)
		return fr.fieldTargets(sc, base, e.Name, mt.Text)
	case *ESlice:
		b := fr.evalExpr(sc, e.X)
		var obj, off, ln Term
		var et types.Type
		if at, ok := ptrToArray(b); ok {
			obj, off, ln, et = b.Term(), IntT(0), IntT(at.Len()), at.Elem()
		} else if sl, ok := b.T.Underlying().(*types.Slice); ok {
			obj, off, ln, et = b.Obj(), b.Off(), b.Len(), sl.Elem()
			if e.Hi == nil && e.Lo == nil {
				ln = b.Cap() // s[:] as a target covers the whole capacity
			}
		} else {
			cfail("modifies target %s is not a slice or array", mt.Text)
		}
		lo := off
		if e.Lo != nil {
			lo = IAdd(off, fr.toIdx(fr.evalExpr(sc, e.Lo)))
		}
		hi := IAdd(off, ln)
		if e.Hi != nil {
			if ce, ok := e.Hi.(*ECond); ok {
				// conditional upper bound: keep the ite outermost so that small constant
				// ranges can be havocked by stores instead of a quantified axiom
				c := fr.evalBool(sc, ce.C)
				a := IAdd(off, fr.toIdx(fr.evalExpr(sc, ce.A)))
				b := IAdd(off, fr.toIdx(fr.evalExpr(sc, ce.B)))
				hi = Ite(c, a, b)
			} else {
				hi = IAdd(off, fr.toIdx(fr.evalExpr(sc, e.Hi)))
			}
		}
		return []resolvedTarget{{text: mt.Text, isRange: true, obj: obj, lo: lo, hi: hi, elemT: et}}
	case *EIndex:
		b := fr.evalExpr(sc, e.X)
		i := fr.toIdx(fr.evalExpr(sc, e.I))
		if at, ok := ptrToArray(b); ok {
			return []resolvedTarget{{text: mt.Text, isRange: true, obj: b.Term(), lo: i, hi: IAdd(i, IntT(1)), elemT: at.Elem()}}
		}
		if sl, ok := b.T.Underlying().(*types.Slice); ok {
			lo := IAdd(b.Off(), i)
			return []resolvedTarget{{text: mt.Text, isRange: true, obj: b.Obj(), lo: lo, hi: IAdd(lo, IntT(1)), elemT: sl.Elem()}}
		}
		cfail("modifies target %s is not indexable", mt.Text)
	case *EUn:
		if e.Op == "*" {
			// *p : every field of the struct p points to
			base := fr.evalExpr(sc, e.X)
			pt, ok := base.T.Underlying().(*types.Pointer)
			if !ok {
				cfail("modifies target %s: not a pointer", mt.Text)
			}
			stt, ok := pt.Elem().Underlying().(*types.Struct)
			if !ok {
				cfail("modifies target %s: not a pointer to struct", mt.Text)
			}
			var out []resolvedTarget
			for i := 0; i < stt.NumFields(); i++ {
				out = append(out, fr.fieldTargets(sc, base, stt.Field(i).Name(), mt.Text)...)
			}
			return out
		}
	case *ECall:
		if id, ok := e.Fun.(*EIdent); ok && id.Name == "pkgheaps" && len(e.Args) == 1 {
			// pkgheaps(p): any field / element heap of a type declared in package p
			if a, ok := e.Args[0].(*EIdent); ok {
				return []resolvedTarget{{text: mt.Text, pkgHeaps: a.Name}}
			}
		}
		if id, ok := e.Fun.(*EIdent); ok && id.Name == "field" && len(e.Args) == 1 {
			// field(pkg.Type.f) / field(Type.f): that field of every object
			parts := strings.Split(ExprString(e.Args[0]), ".")
			if len(parts) >= 2 {
				fname := parts[len(parts)-1]
				tname := strings.Join(parts[:len(parts)-1], ".")
				var out []resolvedTarget
				// every component heap of that field
				pfx := "F:" + tname + "." + fname
				out = append(out, resolvedTarget{text: mt.Text, heapName: pfx, heapPfx: true})
				return out
			}
		}
		if id, ok := e.Fun.(*EIdent); ok && id.Name == "maps" && len(e.Args) == 1 {
			// maps(pkg.T): every map whose key or element type mentions pkg.T (all such map objects)
			return []resolvedTarget{{text: mt.Text, mapOf: ExprString(e.Args[0])}}
		}
		if id, ok := e.Fun.(*EIdent); ok && id.Name == "bytes" && len(e.Args) == 0 {
			// bytes(): the byte memory (restrict with an ensures such as rootBytesKept())
			return []resolvedTarget{{text: mt.Text, heapName: elemHeap(types.Typ[types.Uint8], "")}}
		}
		if id, ok := e.Fun.(*EIdent); ok && id.Name == "elems" && len(e.Args) == 1 {
			// elems(s): the objects the elements of s point to (all their fields and nested arrays);
			// elems(old(s)): the elements s had on entry
			esc := sc
			if oc, ok := e.Args[0].(*ECall); ok {
				if oid, ok := oc.Fun.(*EIdent); ok && oid.Name == "old" && len(oc.Args) == 1 && sc.old != nil {
					c2 := *sc
					c2.st = sc.old
					esc = &c2
				}
			}
			b := fr.evalExpr(sc, e.Args[0])
			sl, ok := b.T.Underlying().(*types.Slice)
			if !ok {
				cfail("elems(%s): not a slice", ExprString(e.Args[0]))
			}
			rt := resolvedTarget{text: mt.Text, isElems: true, eLo: b.Off(), eHi: IAdd(b.Off(), b.Len()), eHeaps: map[string]bool{}}
			var structs []types.Type
			switch u := sl.Elem().Underlying().(type) {
			case *types.Pointer:
				rt.eArr = fr.objArray(esc.st, b.Obj(), sl.Elem(), 0)
				structs = append(structs, u.Elem())
			case *types.Interface:
				rt.eArr = fr.objArray(esc.st, b.Obj(), sl.Elem(), 1) // the .ref component
				if named, ok := sl.Elem().(*types.Named); ok && u.NumMethods() > 0 {
					for _, im := range fr.en.closedImpls(named, u.Method(0)) {
						if pt, ok := im.recvT.(*types.Pointer); ok {
							structs = append(structs, pt.Elem())
						}
					}
				}
				if len(structs) == 0 {
					cfail("elems(%s): the element interface is not closed (no implementation list)", ExprString(e.Args[0]))
				}
			default:
				cfail("elems(%s): elements are neither pointers nor interface values", ExprString(e.Args[0]))
			}
			for _, stT := range structs {
				if stt, ok := stT.Underlying().(*types.Struct); ok {
					for i := 0; i < stt.NumFields(); i++ {
						fr.fieldHeapNames(typeName(stT), stt, i, rt.eHeaps)
					}
				}
			}
			return []resolvedTarget{rt}
		}
		if id, ok := e.Fun.(*EIdent); ok && id.Name == "boxedslice" && len(e.Args) == 1 {
			// boxedslice(x): x is an interface value (any) holding a slice: the whole backing object of that
			// slice (sort.Slice(x, less) permutes it). The dynamic type must be known at the call site.
			b := fr.evalExpr(sc, e.Args[0])
			if _, ok := b.T.Underlying().(*types.Interface); !ok || b.K != KNormal || len(b.C) != 2 {
				cfail("boxedslice(%s): not an interface value", ExprString(e.Args[0]))
			}
			tag, ok := isIntLit(b.C[0])
			if !ok {
				cfail("boxedslice(%s): the dynamic type of the value is not known here", ExprString(e.Args[0]))
			}
			dt := fr.en.tagTypes[int(tag)]
			sl, isSl := dt.Underlying().(*types.Slice)
			if dt == nil || !isSl {
				cfail("boxedslice(%s): the value is not a slice", ExprString(e.Args[0]))
			}
			hv := fr.loadBox(sc.st, b.C[1], dt)
			return []resolvedTarget{{text: mt.Text, isRange: true, whole: true, obj: hv.Obj(), lo: IntT(0), hi: IntT(0), elemT: sl.Elem()}}
		}
		if id, ok := e.Fun.(*EIdent); ok && id.Name == "obj" && len(e.Args) == 1 {
			// obj(s): the whole backing object of s
			b := fr.evalExpr(sc, e.Args[0])
			if sl, ok := b.T.Underlying().(*types.Slice); ok {
				// obj(p.f) with p == nil names nothing (the field of a nil pointer is never reached by code)
				obj := b.Obj()
				if g := fr.derefGuard(sc, e.Args[0]); g.S != "true" {
					obj = Ite(g, obj, Nil)
				}
				return []resolvedTarget{{text: mt.Text, isRange: true, whole: true, obj: obj, lo: IntT(0), hi: IntT(0), elemT: sl.Elem()}}
			}
			if mp, ok := b.T.Underlying().(*types.Map); ok {
				// the whole content of the map
				ks := fr.mapKeySort(mp)
				rt := resolvedTarget{text: mt.Text, isField: true, ref: b.Term()}
				rt.heaps = append(rt.heaps, mapHeapHas(b.T))
				rt.sorts = append(rt.sorts, ArrSort(ks, SBool))
				for _, c := range fr.en.layout(mp.Elem()) {
					rt.heaps = append(rt.heaps, mapHeapVal(b.T, c.Path))
					rt.sorts = append(rt.sorts, ArrSort(ks, c.Sort))
				}
				return []resolvedTarget{rt}
			}
		}
	}
	cfail("unsupported modifies target %s", mt.Text)
	return nil
}

// derefGuard: every pointer dereferenced on the way to e (p in p.f, p.f.g …) is non-nil.
func (fr *Frame) derefGuard(sc *Scope, e Expr) (g Term) {
	g = True
	defer func() {
		if r := recover(); r != nil {
			g = True
		}
	}()
	switch x := e.(type) {
	case *ESel:
		inner := fr.derefGuard(sc, x.X)
		base := fr.evalExpr(sc, x.X)
		if base.K == KNormal && base.T != nil && !base.Nav {
			if _, ok := base.T.Underlying().(*types.Pointer); ok {
				return And(inner, Not(Eq(base.Term(), Nil)))
			}
		}
		return inner
	case *EIndex:
		return fr.derefGuard(sc, x.X)
	}
	return True
}

func (fr *Frame) fieldTargets(sc *Scope, base Val, name, text string) []resolvedTarget {
	pt, ok := base.T.Underlying().(*types.Pointer)
	if !ok || base.K != KNormal {
		cfail("modifies target %s: base is not a pointer to struct", text)
	}
	stt, ok := pt.Elem().Underlying().(*types.Struct)
	if !ok {
		cfail("modifies target %s: base is not a pointer to struct", text)
	}
	path := findField(stt, name)
	if path == nil {
		cfail("modifies target %s: no such field", text)
	}
	ref := base.Term()
	curT := pt.Elem()
	for n, i := range path {
		cst := curT.Underlying().(*types.Struct)
		f := cst.Field(i)
		sname := typeName(curT)
		if n < len(path)-1 {
			ref = fr.subRef(ref, sname, cst, i)
			curT = f.Type()
			continue
		}
		switch u := f.Type().Underlying().(type) {
		case *types.Struct:
			// all fields of the nested struct
			sub := scalar(types.NewPointer(f.Type()), fr.subRef(ref, sname, cst, i))
			var out []resolvedTarget
			for k := 0; k < u.NumFields(); k++ {
				out = append(out, fr.fieldTargets(sc, sub, u.Field(k).Name(), text)...)
			}
			return out
		case *types.Array:
			return []resolvedTarget{{text: text, isRange: true, whole: true, obj: fr.subRef(ref, sname, cst, i), lo: IntT(0), hi: IntT(u.Len()), elemT: u.Elem()}}
		}
		rt := resolvedTarget{text: text, isField: true, ref: ref}
		for _, c := range fr.en.layout(f.Type()) {
			rt.heaps = append(rt.heaps, fieldHeapName(sname, f.Name(), c.Path))
			rt.sorts = append(rt.sorts, c.Sort)
		}
		return []resolvedTarget{rt}
	}
	return nil
}

// havocTargets forgets exactly the target locations.
func (fr *Frame) havocTargets(st *State, tgs []resolvedTarget) {
	for _, t := range tgs {
		switch {
		case t.all:
			fr.havocAll(st)
		case t.pkgHeaps != "":
			fr.top.nepoch++
			if st.pfx == nil {
				st.pfx = map[string]int{}
			}
			st.pfx[t.pkgHeaps] = fr.top.nepoch
			for hn := range st.heaps {
				if heapOfPkg(hn, t.pkgHeaps) {
					delete(st.heaps, hn)
				}
			}
		case t.mapOf != "":
			for hn, srt := range fr.top.heapSorts {
				if mapHeapOf(hn, t.mapOf) {
					st.heaps[hn] = fr.ctx.Fresh("Hh:"+hn, srt)
				}
			}
		case t.heapName != "" && t.heapPfx:
			// all known component heaps of the field; components not yet seen are registered lazily
			hit := false
			for hn, srt := range fr.top.heapSorts {
				if hn == t.heapName || strings.HasPrefix(hn, t.heapName+".") {
					st.heaps[hn] = fr.ctx.Fresh("Hh:"+hn, srt)
					hit = true
				}
			}
			if !hit {
				fr.top.note("field target " + t.heapName + " names a heap that was never accessed")
			}
		case t.heapName != "":
			srt := fr.top.heapSorts[t.heapName]
			if srt == "" {
				srt = byteHeapSort
				fr.top.heapSorts[t.heapName] = srt
			}
			st.heaps[t.heapName] = fr.ctx.Fresh("Hh:"+t.heapName, srt)
			fr.reassertConstStrings(st)
		case t.isElems:
			var hns []string
			for hn := range t.eHeaps {
				hns = append(hns, hn)
			}
			sort.Strings(hns)
			r := Term{"r!el", SInt}
			for _, hn := range hns {
				srt := fr.top.heapSorts[hn]
				if srt == "" {
					continue
				}
				old := fr.heap(st, hn, srt)
				nh := fr.ctx.Fresh("Hh:"+hn, srt)
				fr.assume(st, Forall([]Term{r}, Implies(Not(t.member(fr, r, strings.HasPrefix(hn, "M:"))), Eq(Select(nh, r), Select(old, r))), Select(nh, r)))
				st.heaps[hn] = nh
			}
			fr.reassertConstStrings(st)
		case t.isField:
			for k, hn := range t.heaps {
				h := fr.heap(st, hn, ArrSort(SInt, t.sorts[k]))
				fr.setHeap(st, hn, Store(h, t.ref, fr.ctx.Fresh("hv", t.sorts[k])))
			}
		case t.isRange:
			l := fr.en.layout(t.elemT)
			for k, c := range l {
				old := fr.ctx.Def("old", fr.objArray(st, t.obj, t.elemT, k))
				na := fr.ctx.Fresh("hv", old.Sort)
				if !t.whole {
					cond, hi := True, t.hi
					if strings.HasPrefix(hi.S, "(ite ") {
						// conditional small range: (ite C (lo+n) lo)
						if tr := parseSx(hi.S); len(tr.kids) == 4 && tr.kids[3].String() == t.lo.S {
							cond, hi = Term{tr.kids[1].String(), SBool}, Term{tr.kids[2].String(), SInt}
						}
					}
					if n, ok := rangeConstLen(t.lo, hi); ok && n <= 8 {
						arr := old
						for i := int64(0); i < n; i++ {
							arr = Store(arr, IAdd(t.lo, IntT(i)), fr.ctx.Fresh("hv", c.Sort))
						}
						fr.setObjArray(st, t.obj, t.elemT, k, Ite(cond, arr, old))
						continue
					}
					j := Term{"j!hv", SInt}
					inr := InRange(j, t.lo, t.hi)
					fr.assume(st, Forall([]Term{j}, Implies(Not(inr), Eq(Select(na, j), Select(old, j))), Select(na, j)))
				}
				fr.setObjArray(st, t.obj, t.elemT, k, na)
			}
		}
	}
	// values stored by the callee are well-formed: asserted lazily at loads
}

func rangeConstLen(lo, hi Term) (int64, bool) {
	if a, ok := isIntLit(lo); ok {
		if b, ok := isIntLit(hi); ok {
			return b - a, true
		}
	}
	// hi == lo + n  with both written as sums: compare after flattening
	la, lc := flattenSum(lo)
	ha, hc := flattenSum(hi)
	if len(la) != len(ha) {
		return 0, false
	}
	used := make([]bool, len(ha))
	for _, x := range la {
		found := false
		for k, y := range ha {
			if !used[k] && x == y {
				used[k], found = true, true
				break
			}
		}
		if !found {
			return 0, false
		}
	}
	return hc - lc, true
}

// flattenSum splits a term built from binary (+ a b) into its non-literal atoms and the literal sum.
func flattenSum(t Term) ([]string, int64) {
	var atoms []string
	var c int64
	var rec func(n *sx)
	rec = func(n *sx) {
		if n.kids != nil && len(n.kids) == 3 && n.kids[0].isAtom("+") {
			rec(n.kids[1])
			rec(n.kids[2])
			return
		}
		s := n.String()
		if v, ok := isIntLit(Term{s, SInt}); ok {
			c += v
			return
		}
		atoms = append(atoms, s)
	}
	rec(parseSx(t.S))
	return atoms, c
}

// frameObligations: every pre-existing location outside the targets is unchanged.
// preHeaps: heap name -> term before; alloc0: allocation counter before.
func (fr *Frame) frameObligations(st *State, preHeaps map[string]Term, alloc0 Term, tgs []resolvedTarget, kind, detail string, pos token.Pos) {
	for _, t := range tgs {
		if t.all {
			return
		}
	}
	var names []string
	for hn := range preHeaps {
		names = append(names, hn)
	}
	sort.Strings(names)
	for _, hn := range names {
		skip := strings.HasPrefix(hn, "R:") // ghost attribute heaps are not part of frames
		for _, t := range tgs {
			if (t.pkgHeaps != "" && heapOfPkg(hn, t.pkgHeaps)) || (t.heapName != "" && (t.heapName == hn || (t.heapPfx && strings.HasPrefix(hn, t.heapName+".")))) || mapHeapOf(hn, t.mapOf) {
				skip = true
			}
		}
		if skip {
			continue
		}
		pre := preHeaps[hn]
		srt := fr.top.heapSorts[hn]
		now := fr.heap(st, hn, srt)
		if now.S == pre.S {
			continue
		}
		if strings.HasPrefix(hn, "G:") {
			fr.oblige(st, kind, detail+"."+hn, Eq(now, pre), nil, pos)
			continue
		}
		r := Term{"r!fr", SInt}
		// nil has no storage: writes "to nil" (e.g. the content of a nil map target) are not effects
		old := And(Not(Eq(r, Nil)), IntCmp("<", fr.top.stamp(r), alloc0))
		var goal Term
		if strings.HasPrefix(hn, "M:") {
			// element memory: per object, per index
			j := Term{"j!fr", SInt}
			var excl []Term
			for _, t := range tgs {
				if !t.isRange {
					continue
				}
				match := false
				for _, c := range fr.en.layout(t.elemT) {
					if elemHeap(t.elemT, c.Path) == hn {
						match = true
					}
				}
				if !match {
					continue
				}
				if t.whole {
					excl = append(excl, Eq(r, t.obj))
				} else {
					excl = append(excl, And(Eq(r, t.obj), InRange(j, t.lo, t.hi)))
				}
			}
			for i := range tgs {
				if tgs[i].isElems && tgs[i].eHeaps[hn] {
					excl = append(excl, tgs[i].member(fr, r, true))
				}
			}
			goal = Forall([]Term{r, j}, Implies(And(old, Not(Or(excl...))), Eq(Select(Select(now, r), j), Select(Select(pre, r), j))))
		} else {
			var excl []Term
			for _, t := range tgs {
				if !t.isField {
					continue
				}
				for _, th := range t.heaps {
					if th == hn {
						excl = append(excl, Eq(r, t.ref))
					}
				}
			}
			for i := range tgs {
				if tgs[i].isElems && tgs[i].eHeaps[hn] {
					excl = append(excl, tgs[i].member(fr, r, false))
				}
			}
			goal = Forall([]Term{r}, Implies(And(old, Not(Or(excl...))), Eq(Select(now, r), Select(pre, r))))
		}
		fr.oblige(st, kind, detail+"."+hn, goal, nil, pos)
	}
}

// heapNamesOfAddr adds the heap names a store through addr may write.
func (fr *Frame) heapNamesOfAddr(addr ssa.Value, set map[string]bool) {
	switch a := addr.(type) {
	case *ssa.FieldAddr:
		pt := a.X.Type().Underlying().(*types.Pointer)
		stt := pt.Elem().Underlying().(*types.Struct)
		fr.fieldHeapNames(typeName(pt.Elem()), stt, a.Field, set)
		// the struct itself may live inside a slice element
		if ia, ok := a.X.(*ssa.IndexAddr); ok {
			fr.heapNamesOfAddr(ia, set)
		}
	case *ssa.IndexAddr:
		switch u := a.X.Type().Underlying().(type) {
		case *types.Slice:
			fr.heapNamesOfElems(a.X.Type(), set)
		case *types.Pointer:
			if at, ok := u.Elem().Underlying().(*types.Array); ok {
				for _, c := range fr.en.layout(at.Elem()) {
					set[elemHeap(at.Elem(), c.Path)] = true
				}
			}
		}
	case *ssa.Alloc:
		// struct/array local stored as a whole
		et := a.Type().(*types.Pointer).Elem()
		switch u := et.Underlying().(type) {
		case *types.Struct:
			for i := 0; i < u.NumFields(); i++ {
				fr.fieldHeapNames(typeName(et), u, i, set)
			}
		case *types.Array:
			for _, c := range fr.en.layout(u.Elem()) {
				set[elemHeap(u.Elem(), c.Path)] = true
			}
		}
	case *ssa.Global:
		t := a.Type().(*types.Pointer).Elem()
		for _, c := range fr.en.layout(t) {
			set["G:"+a.Pkg.Pkg.Path()+"."+a.Name()+c.Path] = true
		}
	default:
		// pointer of unknown provenance (parameter, loaded pointer): by type
		if pt, ok := addr.Type().Underlying().(*types.Pointer); ok {
			et := pt.Elem()
			switch u := et.Underlying().(type) {
			case *types.Struct:
				for i := 0; i < u.NumFields(); i++ {
					fr.fieldHeapNames(typeName(et), u, i, set)
				}
			case *types.Array:
				for _, c := range fr.en.layout(u.Elem()) {
					set[elemHeap(u.Elem(), c.Path)] = true
				}
			default:
				for _, c := range fr.en.layout(et) {
					set[boxHeap(et, c.Path)] = true
				}
			}
		}
	}
}

func (fr *Frame) fieldHeapNames(sname string, stt *types.Struct, i int, set map[string]bool) {
	f := stt.Field(i)
	switch u := f.Type().Underlying().(type) {
	case *types.Struct:
		for k := 0; k < u.NumFields(); k++ {
			fr.fieldHeapNames(typeName(f.Type()), u, k, set)
		}
	case *types.Array:
		for _, c := range fr.en.layout(u.Elem()) {
			set[elemHeap(u.Elem(), c.Path)] = true
		}
	default:
		for _, c := range fr.en.layout(f.Type()) {
			hn := fieldHeapName(sname, f.Name(), c.Path)
			set[hn] = true
			if _, ok := fr.top.heapSorts[hn]; !ok {
				fr.top.heapSorts[hn] = ArrSort(SInt, c.Sort)
			}
		}
	}
}

func (fr *Frame) heapNamesOfElems(sliceT types.Type, set map[string]bool) {
	sl, ok := sliceT.Underlying().(*types.Slice)
	if !ok {
		return
	}
	for _, c := range fr.en.layout(sl.Elem()) {
		hn := elemHeap(sl.Elem(), c.Path)
		set[hn] = true
		if _, ok := fr.top.heapSorts[hn]; !ok {
			fr.top.heapSorts[hn] = ArrSort(SInt, ArrSort(SInt, c.Sort))
		}
	}
}

// heapOfPkg: the heap holds fields or elements of a type declared in package pkg (by name).
// mapHeapOf: hn is a map heap whose map type mentions the type name t.
func mapHeapOf(hn, t string) bool {
	return t != "" && (strings.HasPrefix(hn, "MapHas:") || strings.HasPrefix(hn, "MapVal:")) && strings.Contains(hn, t)
}

func heapOfPkg(hn, pkg string) bool {
	for _, p := range []string{"F:", "M:", "M:*", "M:[]", "M:[]*", "B:", "B:*"} {
		if strings.HasPrefix(hn, p+pkg+".") {
			return true
		}
	}
	// maps whose key or element type belongs to the package
	if strings.HasPrefix(hn, "MapHas:") || strings.HasPrefix(hn, "MapVal:") {
		for _, sep := range []string{"]", "*", "[", ":"} {
			if strings.Contains(hn, sep+pkg+".") {
				return true
			}
		}
	}
	return false
}
