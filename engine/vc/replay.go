package vc

// tryReplay attempts to turn a solver model into a concrete test on the real code.
func tryReplay(rf *replayFile, o *Obligation, en *Engine) {
	rf.ReplayNote = "model available (see 'model'); concrete replay generation not implemented for this signature"
}

func runReplayTest(fn, test string) (string, bool) { return "", false }
