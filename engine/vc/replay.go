package vc

import (
	"bytes"
	"context"
	"encoding/json"
	"fmt"
	"go/types"
	"math/big"
	"os"
	"os/exec"
	"path/filepath"
	"strconv"
	"strings"
	"time"
)

// ReplayInfo is attached to every obligation of a function: what is needed to turn a
// solver model into a concrete call of the real function.
type ReplayInfo struct {
	FuncKey  string
	PkgPath  string
	PkgDir   string
	PkgName  string
	Recv     string // receiver type name ("" for functions)
	RecvPtr  bool
	FuncName string
	Params   []replayParam
	Results  []string
	ResTypes []types.Type
	Specs    map[string]*SpecFunc
	PoolPath string // import path of the buffer pool package when the package under test uses it
	Ensures     []*Clause         // every ensures clause of the function (split into conjuncts)
	EntryScript string            // SMT script of the function-entry context (type invariants + requires)
	Imports     map[string]string // package name -> import path, as seen from the package under test
}

type replayParam struct {
	Name string
	Type types.Type
	// terms to query, keyed by a path: "" (scalar), "len", "b<i>", "nil", "f:<Field>", "f:<Field>.len", "f:<Field>.b<i>"
	Terms map[string]string
}

const replayMaxBytes = 96

// buildReplayInfo records the SMT terms of the inputs of a top-level function.
func (fr *Frame) buildReplayInfo(fc *FuncContract) *ReplayInfo {
	fn := fr.fn
	ri := &ReplayInfo{FuncKey: fc.Key, PkgPath: fc.PkgPath, FuncName: fn.Name(), Recv: fc.Recv, Results: fc.Results, Specs: fr.en.CS.Specs}
	if fn.Pkg != nil {
		ri.PkgName = fn.Pkg.Pkg.Name()
	}
	if p, ok := fr.en.byPath[fc.PkgPath]; ok && len(p.GoFiles) > 0 {
		ri.PkgDir = filepath.Dir(p.GoFiles[0])
		ri.Imports = map[string]string{}
		for ip, q := range p.Imports {
			if strings.HasSuffix(ip, "/internal/pool") {
				ri.PoolPath = ip
			}
			ri.Imports[q.Name] = ip
		}
	}
	if recv := fn.Signature.Recv(); recv != nil {
		_, ri.RecvPtr = recv.Type().(*types.Pointer)
	}
	for i := 0; i < fn.Signature.Results().Len(); i++ {
		ri.ResTypes = append(ri.ResTypes, fn.Signature.Results().At(i).Type())
	}
	for _, e := range fc.Ensures {
		for _, p := range SplitConj(e.E) {
			ce := *e
			ce.E, ce.Text = p, ExprString(p)
			ri.Ensures = append(ri.Ensures, &ce)
		}
	}
	st := fr.entry
	byteHeap := func() Term { return fr.heap(st, elemHeap(types.Typ[types.Uint8], ""), byteHeapSort) }
	addBytes := func(m map[string]string, prefix string, v Val) {
		m[prefix+"len"] = v.Len().S
		m[prefix+"nil"] = Eq(v.Obj(), Nil).S
		for i := 0; i < replayMaxBytes; i++ {
			m[fmt.Sprintf("%sb%d", prefix, i)] = Select(Select(byteHeap(), v.Obj()), IAdd(v.Off(), IntT(int64(i)))).S
		}
	}
	for i, p := range fn.Params {
		rp := replayParam{Name: fc.Params[i], Type: p.Type(), Terms: map[string]string{}}
		v := fr.params[i]
		switch u := p.Type().Underlying().(type) {
		case *types.Basic:
			if isString(p.Type()) {
				addBytes(rp.Terms, "", v)
			} else if len(v.C) == 1 {
				rp.Terms[""] = v.C[0].S
			}
		case *types.Slice:
			if isByteLike(u.Elem()) {
				addBytes(rp.Terms, "", v)
				rp.Terms["cap"] = v.Cap().S
			} else {
				rp.Terms["unsupported"] = "true"
			}
		case *types.Pointer:
			stt, ok := u.Elem().Underlying().(*types.Struct)
			if !ok {
				rp.Terms["unsupported"] = "true"
				break
			}
			rp.Terms["nil"] = Eq(v.Term(), Nil).S
			sname := typeName(u.Elem())
			for k := 0; k < stt.NumFields(); k++ {
				f := stt.Field(k)
				switch fu := f.Type().Underlying().(type) {
				case *types.Basic:
					fv := fr.loadField(st, v.Term(), sname, stt, k)
					if isString(f.Type()) {
						addBytes(rp.Terms, "f:"+f.Name()+".", fv)
					} else if len(fv.C) == 1 && fv.C[0].Sort != "F64" {
						rp.Terms["f:"+f.Name()] = fv.C[0].S
					}
				case *types.Slice:
					fv := fr.loadField(st, v.Term(), sname, stt, k)
					if isByteLike(fu.Elem()) {
						addBytes(rp.Terms, "f:"+f.Name()+".", fv)
					} else {
						// other slices: only shape (nil-ness and length); elements are zero values / fresh objects
						rp.Terms["s:"+f.Name()+".len"] = fv.Len().S
						rp.Terms["s:"+f.Name()+".nil"] = Eq(fv.Obj(), Nil).S
					}
				}
			}
		case *types.Struct:
			rp.Terms["unsupported"] = "true"
		default:
			rp.Terms["unsupported"] = "true"
		}
		ri.Params = append(ri.Params, rp)
	}
	return ri
}

// getValues asks the solver that answered sat for the values of the given terms.
func getValues(file, solver string, terms []string, cfg SolverCfg) map[string]string {
	src, err := os.ReadFile(file)
	if err != nil || len(terms) == 0 {
		return nil
	}
	out := map[string]string{}
	// query in chunks to keep responses manageable
	for start := 0; start < len(terms); start += 200 {
		end := start + 200
		if end > len(terms) {
			end = len(terms)
		}
		q := "(get-value (" + strings.Join(terms[start:end], " ") + "))\n"
		mfile := strings.TrimSuffix(file, ".smt2") + ".val.smt2"
		os.WriteFile(mfile, append(append([]byte{}, src...), []byte(q)...), 0o644)
		ctx, cancel := context.WithTimeout(context.Background(), cfg.Timeout+5*time.Second)
		cmd := solverCmd(ctx, solver, mfile, cfg.Timeout, cfg.Seed)
		var buf bytes.Buffer
		cmd.Stdout = &buf
		cmd.Run()
		cancel()
		s := buf.String()
		i := strings.Index(s, "\n")
		if i < 0 || (strings.TrimSpace(s[:i]) != "sat" && strings.TrimSpace(s[:i]) != "unknown") {
			return out
		}
		tree := parseSx(strings.TrimSpace(s[i+1:]))
		if tree == nil {
			return out
		}
		for k, kid := range tree.kids {
			if len(kid.kids) == 2 && start+k < end {
				out[terms[start+k]] = kid.kids[1].String()
			}
		}
	}
	return out
}

func parseSMTInt(s string) (*big.Int, bool) {
	s = strings.TrimSpace(s)
	if strings.HasPrefix(s, "(- ") {
		v, ok := parseSMTInt(strings.TrimSuffix(s[3:], ")"))
		if !ok {
			return nil, false
		}
		return v.Neg(v), true
	}
	if strings.HasPrefix(s, "#x") {
		v, ok := new(big.Int).SetString(s[2:], 16)
		return v, ok
	}
	if strings.HasPrefix(s, "#b") {
		v, ok := new(big.Int).SetString(s[2:], 2)
		return v, ok
	}
	if strings.HasPrefix(s, "(_ bv") {
		f := strings.Fields(s[5:])
		v, ok := new(big.Int).SetString(f[0], 10)
		return v, ok
	}
	v, ok := new(big.Int).SetString(s, 10)
	return v, ok
}

// tryReplay turns the model of a failed obligation into an in-package Go test, runs it
// against /repo with `go test -overlay` and records whether the real code fails.
func tryReplay(rf *replayFile, o *Obligation, en *Engine) {
	ri := o.Replay
	if ri == nil || ri.PkgDir == "" {
		rf.ReplayNote = "no replay information for this function"
		return
	}
	for _, p := range ri.Params {
		if p.Terms["unsupported"] != "" {
			rf.ReplayNote = "parameter " + p.Name + " has a type the replay generator cannot build (" + p.Type.String() + ")"
			return
		}
	}
	var terms []string
	for _, p := range ri.Params {
		for _, t := range p.Terms {
			terms = append(terms, t)
		}
	}
	smt := filepath.Join(verifDir, "work", rf.Property, sanitizeFile(o.Name)+".smt2")
	var vals map[string]string
	if o.Status == "failed" {
		vals = getValues(smt, o.Solver, terms, SolverCfg{Timeout: 20 * time.Second})
	} else {
		// no solver produced a model (quantified goal): use the candidate model of a solver that
		// answered "unknown"; whatever it is, it only counts if the real code fails on it
		// no solver produced a model (quantified goal): take any input that satisfies the
		// function's preconditions; it only counts if the real code fails on it
		efile := strings.TrimSuffix(smt, ".smt2") + ".entry.smt2"
		os.WriteFile(efile, []byte(ri.EntryScript), 0o644)
		for _, sv := range []string{"z3new", "z3", "cvc5"} {
			vals = getValues(efile, sv, terms, SolverCfg{Timeout: 8 * time.Second})
			if len(vals) > 0 {
				break
			}
		}
	}
	if len(vals) == 0 {
		rf.ReplayNote = "could not obtain model values from " + o.Solver
		return
	}
	test, desc, err := genReplayTest(ri, o, vals)
	if err != nil {
		rf.ReplayNote = "replay generation: " + err.Error()
		return
	}
	rf.ReplayTest = test
	rf.Inputs = desc
	out, failed := runReplayTest(ri.PkgDir, test)
	rf.ReplayOut = out
	rf.Replayed = failed
	if failed {
		rf.ReplayNote = "the generated test fails on the real code (see replay_output)"
	} else {
		rf.ReplayNote = "the model's inputs do not make the real code fail (the counterexample is spurious at the code level or depends on state the test cannot build)"
	}
}

func goBytesLit(vals map[string]string, terms map[string]string, prefix string) (string, int, bool) {
	lv, ok := parseSMTInt(vals[terms[prefix+"len"]])
	if !ok {
		return "", 0, false
	}
	n := int(lv.Int64())
	if n < 0 || n > replayMaxBytes {
		return "", n, false
	}
	var b []byte
	for i := 0; i < n; i++ {
		v, ok := parseSMTInt(vals[terms[fmt.Sprintf("%sb%d", prefix, i)]])
		if !ok {
			v = big.NewInt(0)
		}
		b = append(b, byte(v.Int64()))
	}
	return strconv.Quote(string(b)), n, true
}

func genReplayTest(ri *ReplayInfo, o *Obligation, vals map[string]string) (string, string, error) {
	var sb, desc strings.Builder
	qual := func(p *types.Package) string {
		if p.Path() == ri.PkgPath {
			return ""
		}
		return p.Name()
	}
	imports := map[string]bool{"testing": true}
	qual0 := qual
	qual = func(p *types.Package) string {
		n := qual0(p)
		if n != "" {
			imports[p.Path()] = true
		}
		return n
	}
	var setup []string
	var args []string
	recvExpr := ""
	for i, p := range ri.Params {
		name := p.Name
		if name == "_recv" || strings.HasPrefix(name, "_p") {
			name = fmt.Sprintf("arg%d", i)
		}
		ts := types.TypeString(p.Type, qual)
		switch u := p.Type.Underlying().(type) {
		case *types.Basic:
			if isString(p.Type) {
				lit, _, ok := goBytesLit(vals, p.Terms, "")
				if !ok {
					return "", "", fmt.Errorf("string %s too long or unknown in the model", name)
				}
				setup = append(setup, fmt.Sprintf("var %s %s = %s(%s)", name, ts, ts, lit))
				fmt.Fprintf(&desc, "%s=%s ", name, lit)
			} else if isBool(p.Type) {
				setup = append(setup, fmt.Sprintf("var %s %s = %s", name, ts, vals[p.Terms[""]]))
				fmt.Fprintf(&desc, "%s=%s ", name, vals[p.Terms[""]])
			} else {
				v, ok := parseSMTInt(vals[p.Terms[""]])
				if !ok {
					return "", "", fmt.Errorf("no value for %s", name)
				}
				setup = append(setup, fmt.Sprintf("var %s %s = %s(%s)", name, ts, ts, v.String()))
				fmt.Fprintf(&desc, "%s=%s ", name, v.String())
			}
		case *types.Slice:
			lit, n, ok := goBytesLit(vals, p.Terms, "")
			if !ok {
				return "", "", fmt.Errorf("slice %s too long (%d) or unknown in the model", name, n)
			}
			if vals[p.Terms["nil"]] == "true" {
				setup = append(setup, fmt.Sprintf("var %s %s", name, ts))
				fmt.Fprintf(&desc, "%s=nil ", name)
			} else {
				setup = append(setup, fmt.Sprintf("var %s %s = %s([]byte(%s))", name, ts, ts, lit))
				fmt.Fprintf(&desc, "%s=%s ", name, lit)
			}
		case *types.Pointer:
			if vals[p.Terms["nil"]] == "true" {
				setup = append(setup, fmt.Sprintf("var %s %s", name, ts))
				fmt.Fprintf(&desc, "%s=nil ", name)
				break
			}
			stt := u.Elem().Underlying().(*types.Struct)
			ets := types.TypeString(u.Elem(), qual)
			setup = append(setup, fmt.Sprintf("%s := new(%s)", name, ets))
			fmt.Fprintf(&desc, "%s=&{", name)
			for k := 0; k < stt.NumFields(); k++ {
				f := stt.Field(k)
				fts := ""
				if _, ok := p.Terms["f:"+f.Name()]; ok {
					fts = types.TypeString(f.Type(), qual)
				} else if _, ok := p.Terms["f:"+f.Name()+".len"]; ok {
					fts = types.TypeString(f.Type(), qual)
				}
				if t, ok := p.Terms["f:"+f.Name()]; ok {
					if isBool(f.Type()) {
						setup = append(setup, fmt.Sprintf("%s.%s = %s", name, f.Name(), vals[t]))
						fmt.Fprintf(&desc, "%s:%s ", f.Name(), vals[t])
					} else if v, ok := parseSMTInt(vals[t]); ok {
						setup = append(setup, fmt.Sprintf("%s.%s = %s(%s)", name, f.Name(), fts, v.String()))
						fmt.Fprintf(&desc, "%s:%s ", f.Name(), v.String())
					}
				} else if lt, ok := p.Terms["s:"+f.Name()+".len"]; ok {
					if vals[p.Terms["s:"+f.Name()+".nil"]] == "true" {
						continue
					}
					n, ok := parseSMTInt(vals[lt])
					if !ok || n.Sign() < 0 || n.Cmp(big.NewInt(64)) > 0 {
						continue
					}
					sts := types.TypeString(f.Type(), qual)
					setup = append(setup, fmt.Sprintf("%s.%s = make(%s, %s)", name, f.Name(), sts, n.String()))
					if pe, ok := f.Type().Underlying().(*types.Slice).Elem().Underlying().(*types.Pointer); ok {
						if _, isStruct := pe.Elem().Underlying().(*types.Struct); isStruct {
							setup = append(setup, fmt.Sprintf("for i := range %s.%s { %s.%s[i] = new(%s) }", name, f.Name(), name, f.Name(), types.TypeString(pe.Elem(), qual)))
						}
					}
					fmt.Fprintf(&desc, "%s:len=%s ", f.Name(), n.String())
				} else if _, ok := p.Terms["f:"+f.Name()+".len"]; ok {
					lit, _, ok := goBytesLit(vals, p.Terms, "f:"+f.Name()+".")
					if ok && vals[p.Terms["f:"+f.Name()+".nil"]] != "true" {
						if isString(f.Type()) {
							setup = append(setup, fmt.Sprintf("%s.%s = %s(%s)", name, f.Name(), fts, lit))
						} else {
							setup = append(setup, fmt.Sprintf("%s.%s = %s([]byte(%s))", name, f.Name(), fts, lit))
						}
						fmt.Fprintf(&desc, "%s:%s ", f.Name(), lit)
					}
				}
			}
			desc.WriteString("} ")
		}
		if i == 0 && ri.Recv != "" {
			recvExpr = name
		} else {
			args = append(args, name)
		}
	}
	// translate the clause (if this is a clause obligation)
	tr := &goTranslator{ri: ri, imports: imports, paramNames: map[string]bool{}}
	for _, p := range ri.Params {
		tr.paramNames[p.Name] = true
	}
	type chk struct{ goSrc, text string }
	var checks []chk
	if o.Kind == "ensures" && o.ClauseExpr != nil {
		g, err := tr.expr(o.ClauseExpr)
		if err != nil {
			return "", "", fmt.Errorf("cannot translate clause to Go: %v", err)
		}
		checks = append(checks, chk{g, o.Clause})
	} else if strings.HasPrefix(o.Kind, "inv-") || o.Kind == "decreases" || o.Kind == "loop-frame" {
		// a loop obligation failed: the inputs are a candidate; evaluate every postcondition
		// of the function that can be rendered in Go
		for _, e := range ri.Ensures {
			npre := len(tr.pre)
			g, err := tr.expr(e.E)
			if err != nil {
				tr.pre = tr.pre[:npre]
				continue
			}
			checks = append(checks, chk{g, e.Text})
		}
	}
	call := ri.FuncName + "(" + strings.Join(args, ", ") + ")"
	if recvExpr != "" {
		call = recvExpr + "." + call
	}
	fmt.Fprintf(&sb, "package %s\n\nimport (\n", ri.PkgName)
	for im := range imports {
		fmt.Fprintf(&sb, "\t%q\n", im)
	}
	if ri.PoolPath != "" {
		fmt.Fprintf(&sb, "\tgovcpool %q\n", ri.PoolPath)
	}
	sb.WriteString(")\n\n")
	fmt.Fprintf(&sb, "// replay of obligation %s\nfunc TestGovcReplay(t *testing.T) {\n", o.Name)
	sb.WriteString("\tdefer func() {\n\t\tif r := recover(); r != nil {\n\t\t\tt.Fatalf(\"GOVC-REPLAY PANIC: %v\", r)\n\t\t}\n\t}()\n")
	if ri.PoolPath != "" {
		// recycled buffers are not zeroed: reproduce "arbitrary previous content" by poisoning the pool
		sb.WriteString("\tfor _, n := range []int{1, 2, 4, 8, 16, 32, 64, 128, 256, 320, 384, 448, 512, 1024} {\n\t\tpb := govcpool.GetBuf(n)\n\t\tpb = pb[:cap(pb)]\n\t\tfor i := range pb {\n\t\t\tpb[i] = 0xEE\n\t\t}\n\t\tgovcpool.ReleaseBuf(pb)\n\t}\n")
	}
	for _, s := range setup {
		sb.WriteString("\t" + s + "\n")
	}
	for _, s := range tr.pre {
		sb.WriteString("\t" + s + "\n")
	}
	var resNames []string
	for i := range ri.ResTypes {
		n := fmt.Sprintf("ret%d", i)
		if i < len(ri.Results) {
			n = ri.Results[i]
		}
		resNames = append(resNames, n)
	}
	if len(resNames) > 0 {
		fmt.Fprintf(&sb, "\t%s := %s\n", strings.Join(resNames, ", "), call)
		for _, n := range resNames {
			fmt.Fprintf(&sb, "\t_ = %s\n", n)
		}
	} else {
		fmt.Fprintf(&sb, "\t%s\n", call)
	}
	for _, c := range checks {
		fmt.Fprintf(&sb, "\tif !(%s) {\n\t\tt.Fatalf(\"GOVC-REPLAY CLAUSE VIOLATED: %%s\", %s)\n\t}\n", c.goSrc, strconv.Quote(c.text))
	}
	sb.WriteString("}\n")
	return sb.String(), strings.TrimSpace(desc.String()), nil
}

// goTranslator renders a contract expression as Go source evaluated after the call.
type goTranslator struct {
	ri         *ReplayInfo
	imports    map[string]bool
	pre        []string // statements evaluated before the call (old values)
	nold       int
	paramNames map[string]bool
	inOld      bool
	subst      map[string]string
}

func (tr *goTranslator) expr(e Expr) (string, error) {
	switch x := e.(type) {
	case *ENum:
		return x.V.String(), nil
	case *EStr:
		return strconv.Quote(x.V), nil
	case *EIdent:
		if s, ok := tr.subst[x.Name]; ok {
			return s, nil
		}
		return x.Name, nil
	case *ECond:
		c, err := tr.expr(x.C)
		if err != nil {
			return "", err
		}
		a, err := tr.expr(x.A)
		if err != nil {
			return "", err
		}
		b, err := tr.expr(x.B)
		if err != nil {
			return "", err
		}
		// typed via a generic helper is not available in-package: use an immediately invoked func with interface comparison
		return fmt.Sprintf("func() int64 { if %s { return int64(%s) }; return int64(%s) }()", c, a, b), nil
	case *EUn:
		a, err := tr.expr(x.X)
		if err != nil {
			return "", err
		}
		return "(" + x.Op + a + ")", nil
	case *EBin:
		a, err := tr.expr(x.X)
		if err != nil {
			return "", err
		}
		b, err := tr.expr(x.Y)
		if err != nil {
			return "", err
		}
		switch x.Op {
		case "==>":
			return fmt.Sprintf("(!(%s) || (%s))", a, b), nil
		case "<==>":
			return fmt.Sprintf("((%s) == (%s))", a, b), nil
		}
		if _, isCond := x.Y.(*ECond); isCond {
			a = "int64(" + a + ")"
		}
		if _, isCond := x.X.(*ECond); isCond {
			b = "int64(" + b + ")"
		}
		return fmt.Sprintf("(%s %s %s)", a, x.Op, b), nil
	case *ESel:
		if id, ok := x.X.(*EIdent); ok && !tr.paramNames[id.Name] {
			if ip, ok := tr.ri.Imports[id.Name]; ok {
				tr.imports[ip] = true
			}
		}
		a, err := tr.expr(x.X)
		if err != nil {
			return "", err
		}
		return a + "." + x.Name, nil
	case *EIndex:
		a, err := tr.expr(x.X)
		if err != nil {
			return "", err
		}
		i, err := tr.expr(x.I)
		if err != nil {
			return "", err
		}
		return fmt.Sprintf("%s[%s]", a, i), nil
	case *ESlice:
		a, err := tr.expr(x.X)
		if err != nil {
			return "", err
		}
		lo, hi := "", ""
		if x.Lo != nil {
			if lo, err = tr.expr(x.Lo); err != nil {
				return "", err
			}
		}
		if x.Hi != nil {
			if hi, err = tr.expr(x.Hi); err != nil {
				return "", err
			}
		}
		return fmt.Sprintf("%s[%s:%s]", a, lo, hi), nil
	case *ECall:
		name := ""
		if id, ok := x.Fun.(*EIdent); ok {
			name = id.Name
		}
		var as []string
		argsOf := func() error {
			for _, a := range x.Args {
				s, err := tr.expr(a)
				if err != nil {
					return err
				}
				as = append(as, s)
			}
			return nil
		}
		switch name {
		case "old":
			if tr.inOld {
				return tr.expr(x.Args[0])
			}
			tr.inOld = true
			s, err := tr.expr(x.Args[0])
			tr.inOld = false
			if err != nil {
				return "", err
			}
			if len(tr.subst) > 0 {
				// depends on a bound variable: cannot be hoisted; inputs of byte slices are copied instead
				return "", fmt.Errorf("old() under a quantifier is not supported by the replay translator")
			}
			tr.nold++
			v := fmt.Sprintf("old%d", tr.nold)
			tr.pre = append(tr.pre, fmt.Sprintf("%s := %s", v, s))
			return v, nil
		case "len", "cap", "min", "max":
			if err := argsOf(); err != nil {
				return "", err
			}
			return name + "(" + strings.Join(as, ", ") + ")", nil
		case "sameSlice":
			if err := argsOf(); err != nil {
				return "", err
			}
			tr.imports["unsafe"] = true
			return fmt.Sprintf("(len(%s) == (%s)-(%s) && (len(%s) == 0 || unsafe.StringData(string(%s)) != nil) && string(%s) == string(%s[%s:%s]))", as[0], as[3], as[2], as[0], as[0], as[0], as[1], as[2], as[3]), nil
		case "BE16":
			if err := argsOf(); err != nil {
				return "", err
			}
			tr.imports["encoding/binary"] = true
			return fmt.Sprintf("binary.BigEndian.Uint16(%s[%s:])", as[0], as[1]), nil
		case "BE32":
			if err := argsOf(); err != nil {
				return "", err
			}
			tr.imports["encoding/binary"] = true
			return fmt.Sprintf("binary.BigEndian.Uint32(%s[%s:])", as[0], as[1]), nil
		case "BE64":
			if err := argsOf(); err != nil {
				return "", err
			}
			tr.imports["encoding/binary"] = true
			return fmt.Sprintf("binary.BigEndian.Uint64(%s[%s:])", as[0], as[1]), nil
		case "bytesEq":
			if err := argsOf(); err != nil {
				return "", err
			}
			return fmt.Sprintf("(string(%s[%s:(%s)+(%s)]) == string(%s[%s:(%s)+(%s)]))", as[0], as[1], as[1], as[4], as[2], as[3], as[3], as[4]), nil
		case "fresh", "allocated":
			return "true", nil
		case "forall":
			if len(x.Args) < 4 {
				return "", fmt.Errorf("forall arity")
			}
			id := x.Args[0].(*EIdent).Name
			lo, err := tr.expr(x.Args[1])
			if err != nil {
				return "", err
			}
			hi, err := tr.expr(x.Args[2])
			if err != nil {
				return "", err
			}
			if tr.subst == nil {
				tr.subst = map[string]string{}
			}
			tr.subst[id] = id
			body, err := tr.expr(x.Args[3])
			delete(tr.subst, id)
			if err != nil {
				return "", err
			}
			return fmt.Sprintf("func() bool { for %s := int(%s); %s < int(%s); %s++ { if !(%s) { return false } }; return true }()", id, lo, id, hi, id, body), nil
		}
		if sf, ok := tr.ri.Specs[name]; ok && sf.Body != nil {
			if tr.subst == nil {
				tr.subst = map[string]string{}
			}
			saved := map[string]string{}
			for i, p := range sf.Params {
				s, err := tr.expr(x.Args[i])
				if err != nil {
					return "", err
				}
				if old, ok := tr.subst[p]; ok {
					saved[p] = old
				}
				tr.subst[p] = "(" + s + ")"
			}
			body, err := tr.expr(sf.Body)
			for _, p := range sf.Params {
				if old, ok := saved[p]; ok {
					tr.subst[p] = old
				} else {
					delete(tr.subst, p)
				}
			}
			return body, err
		}
		// type conversion or unknown: render as a Go call
		f, err := tr.expr(x.Fun)
		if err != nil {
			return "", err
		}
		if err := argsOf(); err != nil {
			return "", err
		}
		switch name {
		case "sameObj", "typeIs", "ptrOf", "dynNonNil", "has", "loopFresh", "forallref":
			return "", fmt.Errorf("pseudo-function %s has no Go rendering", name)
		}
		return f + "(" + strings.Join(as, ", ") + ")", nil
	}
	return "", fmt.Errorf("unsupported expression")
}

func runReplayTest(pkgDir, test string) (string, bool) {
	work := filepath.Join(verifDir, "work", "replay")
	os.MkdirAll(work, 0o755)
	tf, err := os.CreateTemp(work, "replay_*_test.go")
	if err != nil {
		return err.Error(), false
	}
	tf.WriteString(test)
	tf.Close()
	defer os.Remove(tf.Name())
	ov := map[string]map[string]string{"Replace": {filepath.Join(pkgDir, "zz_govc_replay_test.go"): tf.Name()}}
	ob, _ := json.Marshal(ov)
	of := tf.Name() + ".overlay.json"
	os.WriteFile(of, ob, 0o644)
	defer os.Remove(of)
	ctx, cancel := context.WithTimeout(context.Background(), 120*time.Second)
	defer cancel()
	cmd := exec.CommandContext(ctx, "go", "test", "-overlay", of, "-vet=off", "-count=1", "-timeout", "60s", "-run", "^TestGovcReplay$", ".")
	cmd.Dir = pkgDir
	cmd.Env = append(os.Environ(), "GOFLAGS=-mod=mod", "GOPROXY=off", "GOSUMDB=off", "GOTOOLCHAIN=local")
	var buf bytes.Buffer
	cmd.Stdout = &buf
	cmd.Stderr = &buf
	cmd.Run()
	out := buf.String()
	if len(out) > 4000 {
		out = out[:4000]
	}
	failed := strings.Contains(out, "GOVC-REPLAY PANIC") || strings.Contains(out, "GOVC-REPLAY CLAUSE VIOLATED") || strings.Contains(out, "panic: test timed out") ||
		strings.Contains(out, "fatal error: stack overflow") || strings.Contains(out, "goroutine stack exceeds")
	return out, failed
}
