package vc

import (
	"runtime"
	"bufio"
	"encoding/json"
	"flag"
	"fmt"
	"os"
	"path/filepath"
	"regexp"
	"sort"
	"strconv"
	"strings"
	"time"
)

var verifDir = "/verif"

const verifHome = "/verif"

type knownFinding struct {
	Property   string
	Obligation string
	Text       string
}

func loadKnown(path string) (known []knownFinding, fixed []string) {
	f, err := os.Open(path)
	if err != nil {
		return
	}
	defer f.Close()
	sc := bufio.NewScanner(f)
	re := regexp.MustCompile(`^known:\s+property=(\S+)\s+obligation=(\S+)\s*(.*)$`)
	for sc.Scan() {
		l := strings.TrimSpace(sc.Text())
		if m := re.FindStringSubmatch(l); m != nil {
			known = append(known, knownFinding{m[1], m[2], m[3]})
		} else if strings.HasPrefix(l, "fixed:") {
			fixed = append(fixed, l)
		}
	}
	return
}

func hasProp(ps []string, p string) bool {
	for _, x := range ps {
		if x == p {
			return true
		}
	}
	return false
}

// pkgsForProperty scans the contract files for the property id and returns package patterns.
func pkgsForProperty(repo, prop string) []string {
	var dirs []string
	seen := map[string]bool{}
	filepath.Walk(repo, func(path string, info os.FileInfo, err error) error {
		if err != nil || info.IsDir() || !strings.HasSuffix(path, "_verif.go") {
			return nil
		}
		b, err := os.ReadFile(path)
		if err != nil {
			return nil
		}
		if strings.Contains(string(b), prop) {
			d := filepath.Dir(path)
			rel, _ := filepath.Rel(repo, d)
			if !seen[rel] {
				seen[rel] = true
				dirs = append(dirs, "./"+rel)
			}
		}
		return nil
	})
	sort.Strings(dirs)
	return dirs
}

type evidence struct {
	PropertyID  string                 `json:"property_id"`
	Tier        string                 `json:"tier"`
	Seed        int                    `json:"seed"`
	Level       string                 `json:"level"`
	Coverage    map[string]interface{} `json:"coverage"`
	Assumptions []string               `json:"assumptions"`
	WallS       float64                `json:"wall_s"`
	Violations  int                    `json:"violations"`
}

func CmdCheck(args []string) int {
	fs := flag.NewFlagSet("check", flag.ExitOnError)
	prop := fs.String("property", "", "property id")
	tier := fs.String("tier", "quick", "quick|thorough")
	repo := fs.String("repo", "/repo", "repository")
	ext := fs.String("ext", filepath.Join(verifHome, "specs/ext"), "external specs")
	updateBaseline := fs.Bool("update-baseline", false, "rewrite baseline_obligations for this property (deliberate act)")
	outdir := fs.String("outdir", "", "write evidence/, work/ and replays/ under this directory instead of /verif (self-test runs)")
	fs.Parse(args)
	if *outdir != "" {
		verifDir = *outdir
	}
	if t := os.Getenv("VERIF_TIER"); t == "quick" || t == "thorough" {
		*tier = t
	}
	seed := 0
	if s := os.Getenv("VERIF_SEED"); s != "" {
		seed, _ = strconv.Atoi(s)
	}
	if *prop == "" {
		fmt.Fprintln(os.Stderr, "check: -property required")
		return 2
	}
	t0 := time.Now()
	evPath := filepath.Join(verifDir, "evidence", *prop+".json")
	os.MkdirAll(filepath.Dir(evPath), 0o755)
	os.Remove(evPath)

	pats := pkgsForProperty(*repo, *prop)
	if len(pats) == 0 {
		fmt.Printf("UNDECIDED property=%s no contract mentions this property\n", *prop)
		return 2
	}
	en, err := Load(*repo, pats, "verif")
	if err != nil {
		fmt.Printf("UNDECIDED property=%s load error: %v\n", *prop, err)
		return 2
	}
	if err := en.CS.LoadRepoContracts(en.RepoPkgDirs()); err != nil {
		fmt.Printf("UNDECIDED property=%s contract error: %v\n", *prop, err)
		return 2
	}
	if err := en.CS.LoadExtDir(*ext); err != nil {
		fmt.Printf("UNDECIDED property=%s external spec error: %v\n", *prop, err)
		return 2
	}
	loadS := time.Since(t0).Seconds()

	// functions under contract for this property
	var keys []string
	for k, fc := range en.CS.Funcs {
		if fc.Trusted || fc.External {
			continue
		}
		if hasProp(fc.Props, *prop) || clausesMention(fc, *prop) {
			keys = append(keys, k)
		}
	}
	sort.Strings(keys)
	if len(keys) == 0 {
		fmt.Printf("UNDECIDED property=%s no function under contract\n", *prop)
		return 2
	}
	timeout := 10 * time.Second
	if *tier == "thorough" {
		timeout = 60 * time.Second
		CoverCallsites = true // also probe every call whose arguments a contract pins for reachability
	}
	work := filepath.Join(verifDir, "work", *prop)
	os.RemoveAll(work)
	par := runtime.NumCPU() / 2
	if par < 2 {
		par = 2
	}
	cfg := SolverCfg{Timeout: timeout, WorkDir: work, Parallel: par, Solvers: []string{"z3new", "z3", "cvc5"}, Seed: seed}

	var all []*Obligation
	var covers []*Obligation
	var toolErrs []string
	notes := map[string]bool{}
	trusted := map[string]bool{}
	funcs := []string{}
	genS := 0.0
	for _, k := range keys {
		fc := en.CS.Funcs[k]
		t1 := time.Now()
		res := en.VerifyFunc(fc)
		genS += time.Since(t1).Seconds()
		if res.Err != "" {
			toolErrs = append(toolErrs, fmt.Sprintf("%s: %s", k, res.Err))
			continue
		}
		funcs = append(funcs, shortKey(k))
		n := 0
		for _, o := range res.Obls {
			if o.Kind == "cover" {
				covers = append(covers, o)
				continue
			}
			if hasProp(o.Props, *prop) {
				all = append(all, o)
				n++
			}
		}
		if n == 0 {
			toolErrs = append(toolErrs, fmt.Sprintf("%s: contract generated no obligation for %s (vacuous)", k, *prop))
		}
		for _, s := range res.Notes {
			notes[s] = true
		}
		for _, s := range res.Trusted {
			trusted[s] = true
		}
	}
	t2 := time.Now()
	Discharge(all, cfg)
	// second stage: an obligation without a definitive answer (time-out on a loaded machine) is
	// retried nearly alone with four times the budget before anything is reported about it
	var again []*Obligation
	for _, o := range all {
		if o.Status == "unknown" {
			again = append(again, o)
		}
	}
	retried := len(again)
	if len(again) > 0 {
		rcfg := cfg
		rcfg.Timeout = 4 * timeout
		rcfg.Parallel = 3
		rcfg.Seed = seed + 1
		Discharge(again, rcfg)
	}
	solveS := time.Since(t2).Seconds()
	// cover (vacuity) probes: "false" must NOT be provable at the exits
	ccfg := cfg
	ccfg.Timeout = 2 * time.Second
	ccfg.NoSecondWave = true
	ccfg.WorkDir = filepath.Join(work, "cover")
	Discharge(covers, ccfg)
	vacuous := []string{}
	unreachableCalls := []string{}
	for _, c := range covers {
		if c.Status == "discharged" && c.Solver != "trivial" {
			if strings.Contains(c.Name, "#cover:callsite:") {
				// a pinned call that cannot be reached under the contract (dead on this platform, or a clause that
				// is vacuously true there): reported in the evidence, not an alarm
				unreachableCalls = append(unreachableCalls, c.Name)
				continue
			}
			vacuous = append(vacuous, c.Name)
		}
	}

	known, fixed := loadKnown(filepath.Join(verifHome, "known_findings.txt"))
	baseline := loadBaseline(filepath.Join(verifHome, "baseline", *prop+".json"))
	inBaseline := map[string]bool{}
	for _, n := range baseline[*prop] {
		inBaseline[n] = true
		inBaseline[occBase(n)] = true // the same clause at another occurrence (#n) is the same named obligation
	}

	discharged, counted := 0, 0
	bySolver := map[string]int{}
	solverSecs := 0.0
	var violations, undecided, knownHit []string
	bounded := 0
	var samples []map[string]interface{}
	var names []string
	for _, o := range all {
		names = append(names, o.Name)
		isKnown := false
		for _, kf := range known {
			if kf.Property == *prop && kf.Obligation == o.Name {
				isKnown = true
				if o.Status != "discharged" {
					knownHit = append(knownHit, fmt.Sprintf("KNOWN-FINDING: property=%s obligation=%s %s", *prop, o.Name, kf.Text))
				}
			}
		}
		if isKnown && o.Status != "discharged" {
			continue
		}
		counted++
		solverSecs += o.Seconds
		if o.Bounded > 0 {
			bounded++
		}
		if o.Status == "discharged" {
			discharged++
			bySolver[o.Solver]++
			if len(samples) < 12 && o.Solver != "trivial" && (len(samples) < 4 || o.Kind == "ensures" || o.Kind == "inv-preserved") {
				samples = append(samples, map[string]interface{}{"obligation": o.Name, "kind": o.Kind, "clause": o.Clause, "pos": o.Pos,
					"smt_bytes": o.Size, "backend": o.Solver, "seconds": round3(o.Seconds)})
			}
			continue
		}
		// failed or unknown
		rp := writeReplay(*prop, o, en)
		suffix := ""
		if !rp.Replayed {
			suffix = " no-failing-input-found"
		}
		if inBaseline[o.Name] || inBaseline[occBase(o.Name)] || rp.Replayed || len(baseline[*prop]) == 0 {
			violations = append(violations, fmt.Sprintf("VIOLATION property=%s replay=%s%s", *prop, rp.Path, suffix))
		} else {
			undecided = append(undecided, fmt.Sprintf("UNDECIDED property=%s obligation=%s status=%s (new obligation, no replay) replay=%s", *prop, o.Name, o.Status, rp.Path))
		}
	}
	if len(samples) == 0 && len(all) > 0 {
		o := all[0]
		samples = append(samples, map[string]interface{}{"obligation": o.Name, "kind": o.Kind, "backend": o.Solver})
	}

	if *updateBaseline {
		var ok []string
		for _, o := range all {
			if o.Status == "discharged" {
				ok = append(ok, o.Name)
			}
		}
		sort.Strings(ok)
		baseline[*prop] = ok
		saveBaseline(filepath.Join(verifHome, "baseline", *prop+".json"), map[string][]string{*prop: ok})
	}

	var assumptions []string
	for s := range trusted {
		fc := en.CS.Funcs[s]
		kind := "trusted contract (assumed, body not verified)"
		if fc != nil && fc.External {
			kind = "external specification (assumed)"
		}
		assumptions = append(assumptions, kind+": "+s)
	}
	for s := range notes {
		assumptions = append(assumptions, "unmodelled: "+s)
	}
	sort.Strings(assumptions)
	assumptions = append(assumptions,
		"integers: int/int64/uint/uintptr are SMT Ints reduced with the machine's exact wrap-around at every operation; 8/16/32-bit types and uint64 are bit-vectors; the BV<->Int conversion functions are axiomatised (range, inverse, monotone, ground literals), not interpreted",
		"memory: objects carry allocation stamps; values read from the heap are assumed well-formed (0<=len<=cap<=2^48, references allocated)",
		"sequential semantics only: goroutine bodies are not executed in the spawner, channel operations and select are nondeterministic, sync.Mutex gives mutual exclusion",
		"callee contracts of other properties are assumed at call sites (modular verification); every contract is discharged under the property it is tagged with",
		"go/packages + go/ssa (x/tools v0.29.0) lower the source faithfully; z3 4.8.12, z3 5.1.0, cvc5 1.0 are sound for unsat",
	)
	for _, f := range fixed {
		_ = f
	}

	ev := evidence{PropertyID: *prop, Tier: *tier, Seed: seed, Level: "proof", Assumptions: assumptions,
		WallS: round3(time.Since(t0).Seconds()), Violations: len(violations)}
	ev.Coverage = map[string]interface{}{
		"obligations":      counted,
		"discharged":       discharged,
		"checker_cmd":      fmt.Sprintf("/verif/bin/govc check -property %s -tier %s (obligations generated from /repo's working tree by the govc VC generator; each is one SMT-LIB file under /verif/work/%s raced on z3-new 5.1.0, z3 4.8.12, cvc5 1.0)", *prop, *tier, *prop),
		"trusted_base":     []string{"govc VC generator (/verif/engine)", "go/packages+go/ssa x/tools v0.29.0", "z3 4.8.12", "z3 5.1.0", "cvc5 1.0", "external specs in /verif/specs/ext", "trusted contracts listed under assumptions"},
		"functions_under_contract": funcs,
		"by_backend":       bySolver,
		"solver_seconds":   round3(solverSecs),
		"load_seconds":     round3(loadS),
		"vcgen_seconds":    round3(genS),
		"solve_wall_seconds": round3(solveS),
		"bounded_obligations": bounded,
		"known_findings_hit": len(knownHit),
		"cover_probes":     len(covers),
		"cover_probes_vacuous": len(vacuous),
		"pinned_calls_unreachable_under_contract": unreachableCalls,
		"tool_errors":      toolErrs,
		"samples":          samples,
		"explanation":      "every obligation is (path condition and assumptions) => goal, negated and checked unsat; obligations counted here exclude those listed in known_findings.txt",
	}
	b, _ := json.MarshalIndent(ev, "", " ")
	os.WriteFile(evPath, b, 0o644)

	for _, l := range knownHit {
		fmt.Println(l)
	}
	for _, l := range violations {
		fmt.Println(l)
	}
	for _, l := range undecided {
		fmt.Println(l)
	}
	for _, e := range toolErrs {
		fmt.Printf("UNDECIDED property=%s tool-error %s\n", *prop, e)
	}
	for _, v := range vacuous {
		fmt.Printf("UNDECIDED property=%s vacuous: false is provable at %s\n", *prop, v)
	}
	{
		// the slowest discharged obligations: anything near the time-out is a stability risk
		var ds []*Obligation
		for _, o := range all {
			if o.Status == "discharged" && o.Seconds >= 2 {
				ds = append(ds, o)
			}
		}
		sort.Slice(ds, func(i, j int) bool { return ds[i].Seconds > ds[j].Seconds })
		for i, o := range ds {
			if i >= 8 {
				break
			}
			fmt.Printf("  slow: %.1fs %s (%s)\n", o.Seconds, o.Name, o.Solver)
		}
	}
	fmt.Printf("property=%s tier=%s functions=%d obligations=%d discharged=%d known=%d violations=%d undecided=%d retried=%d wall=%.1fs (load %.1fs, vcgen %.1fs, solve %.1fs)\n",
		*prop, *tier, len(funcs), counted, discharged, len(knownHit), len(violations), len(undecided)+len(toolErrs)+len(vacuous), retried, time.Since(t0).Seconds(), loadS, genS, solveS)
	if len(violations) > 0 {
		return 1
	}
	if len(undecided)+len(toolErrs)+len(vacuous) > 0 {
		return 2
	}
	return 0
}

func round3(f float64) float64 { return float64(int(f*1000+0.5)) / 1000 }

func clausesMention(fc *FuncContract, p string) bool {
	for _, cs := range [][]*Clause{fc.Requires, fc.Ensures, fc.Asserts} {
		for _, c := range cs {
			if hasProp(c.Props, p) {
				return true
			}
		}
	}
	for _, l := range fc.Loops {
		for _, c := range l.Invariants {
			if hasProp(c.Props, p) {
				return true
			}
		}
	}
	for _, cs := range fc.CallSites {
		for _, c := range cs {
			if hasProp(c.Props, p) {
				return true
			}
		}
	}
	return false
}

func loadBaseline(path string) map[string][]string {
	out := map[string][]string{}
	b, err := os.ReadFile(path)
	if err != nil {
		return out
	}
	json.Unmarshal(b, &out)
	return out
}

func saveBaseline(path string, m map[string][]string) {
	b, _ := json.MarshalIndent(m, "", " ")
	os.WriteFile(path, b, 0o644)
}

type replayResult struct {
	Path     string
	Replayed bool
}

type replayFile struct {
	Property   string `json:"property"`
	Obligation string `json:"obligation"`
	Function   string `json:"function"`
	Kind       string `json:"kind"`
	Clause     string `json:"clause,omitempty"`
	Pos        string `json:"pos,omitempty"`
	Status     string `json:"status"`
	Solver     string `json:"solver"`
	SolverOut  string `json:"solver_output"`
	Model      string `json:"model,omitempty"`
	SMTFile    string `json:"smt_file"`
	Replayed   bool   `json:"replayed_on_real_code"`
	ReplayNote string `json:"replay_note"`
	ReplayTest string `json:"replay_test,omitempty"`
	ReplayOut  string `json:"replay_output,omitempty"`
	Inputs     string `json:"inputs,omitempty"`
	PkgDir     string `json:"pkg_dir,omitempty"`
}

func writeReplay(prop string, o *Obligation, en *Engine) replayResult {
	dir := filepath.Join(verifDir, "replays", prop)
	os.MkdirAll(dir, 0o755)
	path := filepath.Join(dir, sanitizeFile(o.Name)+".json")
	rf := replayFile{Property: prop, Obligation: o.Name, Function: o.Func, Kind: o.Kind, Clause: o.Clause, Pos: o.Pos,
		Status: o.Status, Solver: o.Solver, SolverOut: o.Output, Model: o.Model,
		SMTFile: filepath.Join(verifDir, "work", prop, sanitizeFile(o.Name)+".smt2")}
	rf.ReplayNote = "no concrete replay generated for this obligation"
	if o.Replay != nil {
		rf.PkgDir = o.Replay.PkgDir
	}
	tryReplay(&rf, o, en)
	b, _ := json.MarshalIndent(rf, "", " ")
	os.WriteFile(path, b, 0o644)
	return replayResult{Path: path, Replayed: rf.Replayed}
}

// CmdReplay prints a replay file and re-runs its test (if any) against /repo.
func CmdReplay(args []string) int {
	if len(args) < 1 {
		fmt.Fprintln(os.Stderr, "usage: govc replay <file>")
		return 2
	}
	b, err := os.ReadFile(args[0])
	if err != nil {
		fmt.Fprintln(os.Stderr, err)
		return 2
	}
	var rf replayFile
	if err := json.Unmarshal(b, &rf); err != nil {
		fmt.Fprintln(os.Stderr, err)
		return 2
	}
	fmt.Printf("obligation: %s\nfunction:   %s\nclause:     %s\nstatus:     %s (%s)\n", rf.Obligation, rf.Function, rf.Clause, rf.Status, rf.Solver)
	if rf.ReplayTest != "" {
		out, failed := runReplayTest(rf.PkgDir, rf.ReplayTest)
		fmt.Println(out)
		if failed {
			fmt.Println("replay: the violated clause fails on the real code")
			return 1
		}
		fmt.Println("replay: the real code does not fail on these inputs")
		return 0
	}
	fmt.Println(rf.ReplayNote)
	fmt.Println(rf.SolverOut)
	return 1
}

// occBase strips the occurrence suffix (#2, #3, ...) the generator appends when one clause gives
// rise to several obligations (several back edges, call sites or paths).
func occBase(n string) string {
	i := strings.LastIndex(n, "#")
	if i <= 0 {
		return n
	}
	for _, c := range n[i+1:] {
		if c < '0' || c > '9' {
			return n
		}
	}
	if i+1 == len(n) {
		return n
	}
	return n[:i]
}
