package vc

func CmdCheck(args []string) int  { return 2 }
func CmdReplay(args []string) int { return 2 }
