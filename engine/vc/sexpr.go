package vc

import "strings"

// Minimal s-expression tree used to normalise quantifiers.
type sx struct {
	atom string
	kids []*sx
}

func parseSx(s string) *sx {
	pos := 0
	var rec func() *sx
	rec = func() *sx {
		for pos < len(s) && isWS(s[pos]) {
			pos++
		}
		if pos >= len(s) {
			return nil
		}
		if s[pos] == '(' {
			pos++
			n := &sx{}
			for {
				for pos < len(s) && isWS(s[pos]) {
					pos++
				}
				if pos >= len(s) {
					return n
				}
				if s[pos] == ')' {
					pos++
					return n
				}
				n.kids = append(n.kids, rec())
			}
		}
		start := pos
		if s[pos] == '|' {
			pos++
			for pos < len(s) && s[pos] != '|' {
				pos++
			}
			pos++
		} else {
			for pos < len(s) && !isWS(s[pos]) && s[pos] != '(' && s[pos] != ')' {
				pos++
			}
		}
		return &sx{atom: s[start:pos]}
	}
	return rec()
}

func isWS(c byte) bool { return c == ' ' || c == '\n' || c == '\t' || c == '\r' }

func (n *sx) String() string {
	var sb strings.Builder
	n.write(&sb)
	return sb.String()
}

func (n *sx) write(sb *strings.Builder) {
	if n.kids == nil && n.atom != "" {
		sb.WriteString(n.atom)
		return
	}
	sb.WriteByte('(')
	for i, k := range n.kids {
		if i > 0 {
			sb.WriteByte(' ')
		}
		k.write(sb)
	}
	sb.WriteByte(')')
}

func (n *sx) isAtom(a string) bool { return n.kids == nil && n.atom == a }

func (n *sx) contains(a string) bool {
	if n.kids == nil {
		return n.atom == a
	}
	for _, k := range n.kids {
		if k.contains(a) {
			return true
		}
	}
	return false
}

// collectBases finds X in every (bvadd X v) where X does not mention v.
func (n *sx) collectBases(v string, out map[string]int) {
	if n.kids == nil {
		return
	}
	if len(n.kids) == 3 && n.kids[0].isAtom("+") && n.kids[2].isAtom(v) && !n.kids[1].contains(v) {
		k := n.kids[1].String()
		if _, ok := out[k]; !ok {
			out[k] = len(out) // order of first occurrence
		}
	}
	for _, k := range n.kids {
		k.collectBases(v, out)
	}
}

// rebase replaces v by (bvsub p X) and simplifies (bvadd X (bvsub p X)) to p.
func (n *sx) rebase(v, p, x string) *sx {
	if n.kids == nil {
		if n.atom == v {
			return &sx{kids: []*sx{{atom: "-"}, {atom: p}, parseSx(x)}}
		}
		return n
	}
	if len(n.kids) == 3 && n.kids[0].isAtom("+") && n.kids[2].isAtom(v) && n.kids[1].String() == x {
		return &sx{atom: p}
	}
	out := &sx{kids: make([]*sx, len(n.kids))}
	for i, k := range n.kids {
		out.kids[i] = k.rebase(v, p, x)
	}
	return out
}

// forallRange builds  forall v in [lo,hi): body.  When the body reads arrays at X+v the
// quantifier is restated over the absolute index p = X+v (guard X+lo <= p < X+hi), which
// lets the solvers' E-matching fire on (select A p). Indices are mathematical integers,
// so v -> X+v is a bijection and the restated formula is equivalent.
func forallRange(v Term, lo, hi Term, body Term, pats []Term) Term {
	orig := Forall([]Term{v}, Implies(InRange(v, lo, hi), body), pats...)
	if len(pats) > 0 || !strings.Contains(body.S, "(+ ") {
		return orig
	}
	tree := parseSx(body.S)
	bases := map[string]int{}
	tree.collectBases(v.S, bases)
	best := ""
	for b, n := range bases {
		if n == 0 {
			best = b // the first array read in the body (by convention the written one)
		}
	}
	if best == "" {
		return orig
	}
	p := v.S + "p"
	nb := Term{tree.rebase(v.S, p, best).String(), SBool}
	x := Term{best, SInt}
	pv := Term{p, SInt}
	return Forall([]Term{pv}, Implies(InRange(pv, IAdd(x, lo), IAdd(x, hi)), nb))
}
